package qids_test

// Replay of finding F8 (C20, C16): qids.Mapper.QIDFor reads and writes the
// plain map Mapper.paths. The wrapper File built by NewWrapperFile calls it
// from Walk / GetAttr / Open / Readdir, which the server runs concurrently
// (read class), so two requests for paths not yet mapped write the map at the
// same time: a data race, and Go's fatal "concurrent map writes".
//
// Run with the race detector:
//   go test -race -overlay ov.json -run TestReplayF8 ./fsimpl/qids
//
// Obligation: qids.(*Mapper).QIDFor/guard@Mapper.paths#read/read

import (
	"sync"
	"testing"

	"github.com/hugelgupf/p9/fsimpl/qids"
	"github.com/hugelgupf/p9/p9"
)

func TestReplayF8MapperConcurrent(t *testing.T) {
	m := qids.NewMapper(&qids.PathGenerator{})
	const workers, each = 8, 2000
	got := make([][]uint64, workers)
	var wg sync.WaitGroup
	for w := 0; w < workers; w++ {
		w := w
		got[w] = make([]uint64, each)
		wg.Add(1)
		go func() {
			defer wg.Done()
			for i := 0; i < each; i++ {
				// every worker asks for the same source paths
				got[w][i] = m.QIDFor(p9.QID{Path: uint64(i)}).Path
			}
		}()
	}
	wg.Wait()
	// one distinct path per source path, the same for every caller
	seen := map[uint64]int{}
	for i := 0; i < each; i++ {
		for w := 1; w < workers; w++ {
			if got[w][i] != got[0][i] {
				t.Fatalf("source path %d mapped to %d and to %d", i, got[0][i], got[w][i])
			}
		}
		if j, dup := seen[got[0][i]]; dup {
			t.Fatalf("source paths %d and %d both mapped to %d", j, i, got[0][i])
		}
		seen[got[0][i]] = i
	}
}
