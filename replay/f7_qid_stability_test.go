//go:build !windows

package localfs

// Replay of finding F7 (C20): for (device, inode) pairs outside the compact
// encoding, localToQid keys its sync.Map with &devino{...}, a fresh pointer on
// every call, so the lookup never hits and the same file gets a new QID path
// on every call (stat the same file twice: two different QIDs).
//
// Obligation: localfs.localToQid/ensures/stable-for-known-pairs

import (
	"os"
	"syscall"
	"testing"
	"time"
)

type f7Info struct{ st syscall.Stat_t }

func (f7Info) Name() string       { return "x" }
func (f7Info) Size() int64        { return 0 }
func (f7Info) Mode() os.FileMode  { return 0o644 }
func (f7Info) ModTime() time.Time { return time.Time{} }
func (f7Info) IsDir() bool        { return false }
func (f f7Info) Sys() interface{} { return &f.st }

func TestReplayF7QidStability(t *testing.T) {
	// inode >= 2^39 does not fit the compact encoding
	fi := f7Info{st: syscall.Stat_t{Dev: 1, Ino: 1 << 40}}
	first, err := localToQid("x", fi)
	if err != nil {
		t.Fatal(err)
	}
	second, err := localToQid("x", fi)
	if err != nil {
		t.Fatal(err)
	}
	if first != second {
		t.Fatalf("same (dev, ino): first=%#x second=%#x", first, second)
	}
	other, _ := localToQid("y", f7Info{st: syscall.Stat_t{Dev: 1, Ino: 1<<40 + 1}})
	if other == first {
		t.Fatalf("distinct (dev, ino) pairs share path %#x", first)
	}
	if first>>63 != 1 || other>>63 != 1 {
		t.Fatalf("fallback paths must have bit 63 set: %#x %#x", first, other)
	}
}
