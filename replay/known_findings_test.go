package p9

// Replays of the known findings that are recorded, not repaired
// (known_findings.txt): F9, F10 (F2 and F5 were repaired later; their tests now pass and are registered as replay/f2.json and replay/f5.json). Each test FAILS on the current tree -
// that is the demonstration of the defect on the real code. They are not part
// of any check's pass/fail decision (the checks print KNOWN-FINDING for the
// listed obligations); run one with
//   ./check <id> --replay /verif/replay/known_f<N>.json
// (go test -overlay; /repo is not written to).

import (
	"net"
	"sync/atomic"
	"testing"
	"time"

	"github.com/hugelgupf/p9/linux"
)

type pfile struct {
	DefaultWalkGetAttr
	id      int
	closes  *int32
	opened  bool
	lockHit *int32
	data    []byte
	g       *gates
	walkEnter chan struct{}
	myCloses  int32 // Close calls on this very File
}

type gates struct {
	openEntered int32
	openGate    chan struct{}
	setattrIn   chan struct{}
	setattrGate chan struct{}
	walkEnter   chan struct{}
	walkGate    chan struct{}
}

func (f *pfile) Walk(names []string) ([]QID, File, error) {
	if f.walkEnter != nil && len(names) == 0 {
		f.walkEnter <- struct{}{}
		if f.g.walkGate != nil {
			<-f.g.walkGate
		}
	}
	if len(names) == 0 {
		return nil, &pfile{id: f.id + 100, closes: f.closes, lockHit: f.lockHit, data: f.data, g: f.g}, nil
	}
	if names[0] == "c" {
		return []QID{{}}, &pfile{id: 7, closes: f.closes, lockHit: f.lockHit, g: f.g, walkEnter: f.g.walkEnter}, nil
	}
	return nil, nil, linux.ENOENT
}
func (f *pfile) StatFS() (FSStat, error) { return FSStat{}, nil }
func (f *pfile) GetAttr(AttrMask) (QID, AttrMask, Attr, error) {
	if f.id == 1 || f.id == 101 {
		return QID{}, AttrMask{Mode: true}, Attr{Mode: ModeDirectory | 0755}, nil
	}
	return QID{}, AttrMask{Mode: true}, Attr{Mode: ModeRegular | 0644}, nil
}
func (f *pfile) SetAttr(SetAttrMask, SetAttr) error {
	if f.g != nil && f.g.setattrIn != nil {
		f.g.setattrIn <- struct{}{}
		<-f.g.setattrGate
	}
	return nil
}
func (f *pfile) Close() error {
	atomic.AddInt32(f.closes, 1)
	atomic.AddInt32(&f.myCloses, 1)
	return nil
}
func (f *pfile) Open(OpenFlags) (QID, uint32, error) {
	if f.g != nil && f.g.openGate != nil {
		atomic.AddInt32(&f.g.openEntered, 1)
		<-f.g.openGate
	}
	return QID{}, 0, nil
}
func (f *pfile) ReadAt(p []byte, off int64) (int, error) {
	for i := range p {
		p[i] = 'x'
	}
	return len(p), nil
}
func (f *pfile) WriteAt(p []byte, off int64) (int, error)     { return len(p), nil }
func (f *pfile) SetXattr(string, []byte, XattrFlags) error    { return nil }
func (f *pfile) GetXattr(string) ([]byte, error)              { return []byte("v"), nil }
func (f *pfile) ListXattrs() ([]string, error)                { return nil, nil }
func (f *pfile) RemoveXattr(string) error                     { return nil }
func (f *pfile) FSync() error                                 { return nil }
func (f *pfile) Lock(pid int, lt LockType, fl LockFlags, s, l uint64, c string) (LockStatus, error) {
	atomic.AddInt32(f.lockHit, 1)
	return LockStatusOK, nil
}
func (f *pfile) Create(string, OpenFlags, FileMode, UID, GID) (File, QID, uint32, error) {
	return nil, QID{}, 0, linux.ENOSYS
}
func (f *pfile) Mkdir(string, FileMode, UID, GID) (QID, error)            { return QID{}, linux.ENOSYS }
func (f *pfile) Symlink(string, string, UID, GID) (QID, error)            { return QID{}, linux.ENOSYS }
func (f *pfile) Link(File, string) error                                  { return linux.ENOSYS }
func (f *pfile) Mknod(string, FileMode, uint32, uint32, UID, GID) (QID, error) {
	return QID{}, linux.ENOSYS
}
func (f *pfile) Rename(File, string) error            { return linux.ENOSYS }
func (f *pfile) RenameAt(string, File, string) error  { return linux.ENOSYS }
func (f *pfile) UnlinkAt(string, uint32) error        { return linux.ENOSYS }
func (f *pfile) Readdir(uint64, uint32) (Dirents, error) { return nil, nil }
func (f *pfile) Readlink() (string, error)            { return "", linux.ENOSYS }
func (f *pfile) Renamed(File, string)                 {}

type pattacher struct {
	root    *pfile // the File handed out by Attach
	closes  int32
	lockHit int32
	g       *gates
}

func (a *pattacher) Attach() (File, error) {
	g := a.g
	if g == nil {
		g = &gates{}
	}
	a.root = &pfile{id: 1, closes: &a.closes, lockHit: &a.lockHit, g: g}
	return a.root, nil
}

func setup(t *testing.T, msize uint32) (*pattacher, *Client, net.Conn) {
	return setupG(t, msize, nil)
}

func setupG(t *testing.T, msize uint32, g *gates) (*pattacher, *Client, net.Conn) {
	a := &pattacher{g: g}
	s := NewServer(a)
	c1, c2 := net.Pipe()
	go s.Handle(c1, c1)
	c, err := NewClient(c2, WithMessageSize(msize))
	if err != nil {
		t.Fatal(err)
	}
	return a, c, c2
}


// F2 (C05, C15): Txattrwalk builds the xattr fid around the same File as the
// fid it was walked from; clunking the xattr fid closes the File the original
// fid still uses.
// Obligation: p9.(*txattrwalk).handle/own@store:fidRef.file/stores-only-owned-file
func TestKnownF2XattrSharesFile(t *testing.T) {
	a, c, _ := setup(t, 8192)
	root, _ := c.Attach("")
	if _, err := root.GetXattr("user.a"); err != nil {
		t.Fatalf("GetXattr: %v", err)
	}
	// GetXattr walked an xattr fid and clunked it again; the root fid is
	// still open, so the File bound to it must not have been closed.
	if n := atomic.LoadInt32(&a.root.myCloses); n != 0 {
		t.Errorf("backend Close was called %d time(s) on the File of a fid that is still open (GetXattr clunked its xattr fid)", n)
	}
	root.Close()
	if n := atomic.LoadInt32(&a.root.myCloses); n != 1 {
		t.Errorf("the root File was closed %d times, want exactly once", n)
	}
}

// F5 (C14, C06): a Tflush whose OldTag is its own tag waits for a channel that
// only its own completion closes: it is never answered.
// Obligation: p9.(*tflush).handle/requires@(*connState).WaitTag/never-waits-for-own-tag
func TestKnownF5FlushOfOwnTag(t *testing.T) {
	_, c, _ := setup(t, 8192)
	done := make(chan error, 1)
	go func() {
		// the tag pool is last-in first-out: the next tag is the one just returned
		tg, _ := c.tagPool.Get()
		c.tagPool.Put(tg)
		done <- c.sendRecv(&tflush{OldTag: tag(tg)}, &rflush{})
	}()
	select {
	case err := <-done:
		if err != nil {
			t.Errorf("self flush: %v", err)
		}
	case <-time.After(2 * time.Second):
		t.Errorf("Tflush naming its own tag got no reply within 2s")
	}
}

// F9 (C07, C16): tlopen tests 'opened' under a shared lock and sets it after
// the lock is released: two concurrent Tlopen on one fid both reach File.Open.
// Obligation: p9.(*tlopen).handle/guard@fidRef.opened#write/write
func TestKnownF9DoubleOpen(t *testing.T) {
	g := &gates{openGate: make(chan struct{})}
	_, c, _ := setupG(t, 8192, g)
	root, _ := c.Attach("")
	res := make(chan error, 2)
	for i := 0; i < 2; i++ {
		go func() { _, _, err := root.Open(ReadOnly); res <- err }()
	}
	time.Sleep(500 * time.Millisecond)
	n := atomic.LoadInt32(&g.openEntered)
	close(g.openGate)
	<-res
	<-res
	if n > 1 {
		t.Errorf("File.Open was entered %d times on one File (Open is invoked at most once on a File)", n)
	}
}

// F10 (C07): a clone walk (Twalk with no names) calls Walk(nil) on the fid's
// File holding only the parent's path-node lock, so it overlaps SetAttr on the
// same node.
// Obligation: p9.doWalk/requires@walkOne#2/from-read-locked
func TestKnownF10CloneOverlapsSetAttr(t *testing.T) {
	g := &gates{setattrIn: make(chan struct{}, 1), setattrGate: make(chan struct{}), walkEnter: make(chan struct{}, 4), walkGate: make(chan struct{})}
	_, c, _ := setupG(t, 8192, g)
	root, _ := c.Attach("")
	_, f1, err := root.Walk([]string{"c"})
	if err != nil {
		t.Fatal(err)
	}
	_, f2, err := root.Walk([]string{"c"})
	if err != nil {
		t.Fatal(err)
	}
	done := make(chan struct{})
	go func() { f2.Walk(nil); close(done) }()
	<-g.walkEnter // the clone's Walk(nil) is inside the backend (read class on node c)
	go f1.SetAttr(SetAttrMask{Size: true}, SetAttr{})
	select {
	case <-g.setattrIn:
		t.Errorf("SetAttr entered the backend while Walk(nil) on the same path was still running (write class overlaps read class)")
	case <-time.After(time.Second):
	}
	close(g.walkGate)
	close(g.setattrGate)
	<-done
}
