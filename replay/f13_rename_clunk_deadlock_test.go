package p9_test

// Replay of finding F13 (C16, C06): renaming an entry inside one directory
// while another connection holding a fid on that entry goes away
// self-deadlocks the server.
//
// renameChildTo -> pathNode.removeWithName holds p.childMu (write) while it
// runs, per reference, TryIncRef / fn / DecRef. If the fid table's reference is
// dropped meanwhile (connection teardown and Tattach over a bound fid take no
// path-tree lock), that DecRef is the last one:
// it calls ref.parent.pathNode.removeChild(ref), which locks childMu of the
// target directory's node - for a rename within one directory that is p
// itself, already held by this goroutine. sync.RWMutex is not reentrant: the
// request never returns, and renameMu stays write-locked for ever.
//
// Obligation: p9.(*pathNode).removeWithName/requires@(*fidRef).DecRef/parent-node-child-lock-free

import (
	"net"
	"sync"
	"testing"
	"time"

	"github.com/hugelgupf/p9/fsimpl/templatefs"
	"github.com/hugelgupf/p9/linux"
	"github.com/hugelgupf/p9/p9"
)

type f13FS struct {
	mu        sync.Mutex
	inRenamed chan struct{}
	proceed   chan struct{}
	once      sync.Once
}

type f13File struct {
	templatefs.NoopFile
	fs   *f13FS
	path string
}

func (f *f13File) qid() p9.QID {
	switch f.path {
	case "", "d":
		return p9.QID{Type: p9.TypeDir, Path: uint64(len(f.path) + 1)}
	}
	return p9.QID{Type: p9.TypeRegular, Path: 10}
}

func (f *f13File) mode() p9.FileMode {
	if f.path == "" || f.path == "d" {
		return p9.ModeDirectory | 0o755
	}
	return p9.ModeRegular | 0o644
}

func (f *f13File) Walk(names []string) ([]p9.QID, p9.File, error) {
	if len(names) == 0 {
		return []p9.QID{f.qid()}, &f13File{fs: f.fs, path: f.path}, nil
	}
	var next string
	switch {
	case f.path == "" && names[0] == "d":
		next = "d"
	case f.path == "d" && names[0] == "x":
		next = "d/x"
	default:
		return nil, nil, linux.ENOENT
	}
	nf := &f13File{fs: f.fs, path: next}
	return []p9.QID{nf.qid()}, nf, nil
}

func (f *f13File) GetAttr(p9.AttrMask) (p9.QID, p9.AttrMask, p9.Attr, error) {
	return f.qid(), p9.AttrMask{Mode: true}, p9.Attr{Mode: f.mode()}, nil
}

func (f *f13File) RenameAt(oldName string, newDir p9.File, newName string) error { return nil }

// Renamed is the hook the server calls, per affected reference, while it holds
// the rename locks. The first call parks until the test has clunked the fid.
func (f *f13File) Renamed(newDir p9.File, newName string) {
	f.fs.once.Do(func() {
		close(f.fs.inRenamed)
		<-f.fs.proceed
	})
}

func (f *f13File) Close() error { return nil }

type f13Attacher struct{ fs *f13FS }

func (a f13Attacher) Attach() (p9.File, error) { return &f13File{fs: a.fs}, nil }

func TestReplayF13RenameClunkDeadlock(t *testing.T) {
	fs := &f13FS{inRenamed: make(chan struct{}), proceed: make(chan struct{})}
	s := p9.NewServer(f13Attacher{fs: fs})

	// Connection 1 renames; connection 2 merely holds a fid on d/x.
	srv1, cli1 := net.Pipe()
	go func() { _ = s.Handle(srv1, srv1) }()
	defer srv1.Close()
	defer cli1.Close()
	srv2, cli2 := net.Pipe()
	conn2Done := make(chan struct{})
	go func() { _ = s.Handle(srv2, srv2); close(conn2Done) }()
	defer srv2.Close()

	c1, err := p9.NewClient(cli1)
	if err != nil {
		t.Fatalf("NewClient 1: %v", err)
	}
	c2, err := p9.NewClient(cli2)
	if err != nil {
		t.Fatalf("NewClient 2: %v", err)
	}
	root1, err := c1.Attach("")
	if err != nil {
		t.Fatalf("Attach 1: %v", err)
	}
	_, dir1, err := root1.Walk([]string{"d"})
	if err != nil {
		t.Fatalf("Walk d (1): %v", err)
	}
	root2, err := c2.Attach("")
	if err != nil {
		t.Fatalf("Attach 2: %v", err)
	}
	_, dir2, err := root2.Walk([]string{"d"})
	if err != nil {
		t.Fatalf("Walk d (2): %v", err)
	}
	if _, _, err := dir2.Walk([]string{"x"}); err != nil {
		t.Fatalf("Walk x (2): %v", err)
	}

	renamed := make(chan error, 1)
	go func() { renamed <- dir1.RenameAt("x", dir1, "y") }()

	select {
	case <-fs.inRenamed:
	case <-time.After(5 * time.Second):
		t.Fatal("rename never reached the Renamed hook")
	}
	// The server is inside removeWithName's callback for connection 2's
	// reference to d/x. Connection 2 goes away: its teardown drops the fid
	// table's references without taking any path-tree lock.
	cli2.Close()
	select {
	case <-conn2Done:
	case <-time.After(5 * time.Second):
		t.Fatal("connection 2 teardown did not finish")
	}
	close(fs.proceed)

	select {
	case err := <-renamed:
		if err != nil {
			t.Fatalf("RenameAt: %v", err)
		}
	case <-time.After(5 * time.Second):
		t.Fatal("Trenameat was never answered: server deadlocked on pathNode.childMu (F13)")
	}
	// The server must still be alive: renameMu must not be stuck.
	done := make(chan error, 1)
	go func() { _, _, _, err := dir1.GetAttr(p9.AttrMask{Mode: true}); done <- err }()
	select {
	case err := <-done:
		if err != nil {
			t.Fatalf("GetAttr after rename: %v", err)
		}
	case <-time.After(5 * time.Second):
		t.Fatal("server wedged after rename (renameMu still held)")
	}
}
