package localfs_test

// Replay of finding F6 (C19): paging through a local directory loses entries.
// Local.Readdir restarts its cursor at 0 on every call while the OS directory
// stream (l.file) keeps its position, and compares that cursor with the
// absolute offset cookie: the second page skips the entries the stream is
// actually positioned at.
//
// Obligation: localfs.(*Local).Readdir/ensures/page-is-the-next-slice-of-the-directory

import (
	"fmt"
	"os"
	"path/filepath"
	"sort"
	"testing"

	"github.com/hugelgupf/p9/fsimpl/localfs"
	"github.com/hugelgupf/p9/p9"
)

func TestReplayF6LocalfsPaging(t *testing.T) {
	dir := t.TempDir()
	var want []string
	for i := 0; i < 10; i++ {
		n := fmt.Sprintf("file%02d", i)
		if err := os.WriteFile(filepath.Join(dir, n), nil, 0o644); err != nil {
			t.Fatal(err)
		}
		want = append(want, n)
	}
	root, err := localfs.Attacher(dir).Attach()
	if err != nil {
		t.Fatal(err)
	}
	if _, _, err := root.Open(p9.ReadOnly); err != nil {
		t.Fatal(err)
	}
	for _, pageSize := range []uint32{1, 3, 4, 10, 50} {
		seen := map[string]int{}
		offset := uint64(0)
		for calls := 0; calls < 100; calls++ {
			ents, err := root.Readdir(offset, pageSize)
			if err != nil {
				t.Fatalf("Readdir(%d, %d): %v", offset, pageSize, err)
			}
			if len(ents) == 0 {
				break
			}
			for _, e := range ents {
				seen[e.Name]++
			}
			offset = ents[len(ents)-1].Offset
		}
		var got []string
		for n, c := range seen {
			if c != 1 {
				t.Errorf("pages of %d: %q listed %d times", pageSize, n, c)
			}
			got = append(got, n)
		}
		sort.Strings(got)
		if fmt.Sprint(got) != fmt.Sprint(want) {
			t.Errorf("pages of %d: listed %v, want %v", pageSize, got, want)
		}
	}
}
