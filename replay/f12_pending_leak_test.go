package p9

// Replay of finding F12 (C10): when send fails, sendRecv leaves its tag
// registered in Client.pending although the response slot goes back to the
// pool; a later error broadcast then sends twice on one capacity-1 channel
// while holding pendingMu, and that call never returns.

import (
	"errors"
	"io"
	"sync"
	"testing"
	"time"

	"github.com/u-root/uio/ulog"
)

type f12Conn struct {
	mu        sync.Mutex
	writes    int
	failWrite int // the n-th write (1-based) fails
	readGate  chan struct{}
}

func (c *f12Conn) Write(p []byte) (int, error) {
	c.mu.Lock()
	defer c.mu.Unlock()
	c.writes++
	if c.writes == c.failWrite {
		return 0, errors.New("transient write error")
	}
	return len(p), nil
}

func (c *f12Conn) Read(p []byte) (int, error) {
	<-c.readGate
	return 0, io.ErrUnexpectedEOF
}

func (c *f12Conn) Close() error { return nil }

func TestReplayF12(t *testing.T) {
	conn := &f12Conn{failWrite: 1, readGate: make(chan struct{})}
	c := &Client{
		conn:        conn,
		tagPool:     pool{start: 1, limit: uint64(noTag)},
		fidPool:     pool{start: 1, limit: uint64(noFID)},
		pending:     make(map[tag]*response),
		recvr:       make(chan bool, 1),
		messageSize: DefaultMessageSize,
		log:         ulog.Null,
	}
	// 1. a request whose send fails
	if err := c.sendRecv(&tclunk{fid: 1}, &rclunk{}); err == nil {
		t.Fatalf("expected the send to fail")
	}
	c.pendingMu.Lock()
	stale := len(c.pending)
	c.pendingMu.Unlock()
	if stale != 0 {
		t.Errorf("F12: %d stale entry(ies) left in Client.pending after a failed send", stale)
	}
	// 2. a later request issued by the same goroutine (sync.Pool hands back the
	// same response slot), then the connection breaks
	time.AfterFunc(100*time.Millisecond, func() { close(conn.readGate) })
	hung := time.AfterFunc(3*time.Second, func() {
		t.Errorf("F12: the call hangs on a dead connection (error broadcast blocked on a reused response slot)")
		panic("hung call: aborting the test binary")
	})
	err := c.sendRecv(&tclunk{fid: 2}, &rclunk{})
	hung.Stop()
	if err == nil {
		t.Errorf("expected an error from the broken connection")
	}
}
