#!/bin/bash
# tools/seedtable.sh [ids...]: run the checks against every stored seeded change
# (on a scratch copy of /repo with the change applied); writes seeded/<id>/result.txt
cd /verif; export VERIF_NO_RETRY=1
declare -A EXTRA=( [C02-f]="C18" [C03-a]="C07 C08" [C15-a]="C05" [C15-b]="C05" [C11-b]="C13" [C16-a]="C05" [C16-b]="C07" [C06-a]="C14 C16" [C17-a]="C02" [C17-b]="C02" [C02-b]="C17" [C19-a]="C19" [C19-b]="C19")
IDS="${*:-$(ls seeded)}"
for ID in $IDS; do
  D=seeded/$ID
  P=${ID%-*}
  PATCH=$D/patch.diff; [ -f $D/patch.rebased.diff ] && PATCH=$D/patch.rebased.diff
  S=/var/tmp/verif-scratch/st.$$
  rm -rf $S; mkdir -p $S; rsync -a --exclude .git /repo/ $S/
  if ! (cd $S && patch -p1 -s < /verif/$PATCH) >/dev/null 2>&1; then echo "$ID PATCH-DOES-NOT-APPLY" | tee $D/result.txt; rm -rf $S; continue; fi
  : > $D/result.txt
  HIT=""
  for Q in $P ${EXTRA[$ID]:-}; do
    ./bin/vcgen check -prop $Q -repo $S -out /var/tmp/verif-scratch/so.$$ > /var/tmp/verif-scratch/st.$$.log 2>&1; rc=$?
    grep "^NOT-DISCHARGED\|^VACUOUS\|^UNDECIDED" /var/tmp/verif-scratch/st.$$.log | cut -c1-240 | head -6 | sed "s/^/  [$Q] /" >> $D/result.txt
    [ $rc -ne 0 ] && HIT="$HIT $Q"
  done
  if [ -n "$HIT" ]; then echo "$ID DETECTED by$HIT" | tee -a $D/result.txt; else echo "$ID MISSED" | tee -a $D/result.txt; fi
  rm -rf $S /var/tmp/verif-scratch/so.$$ /var/tmp/verif-scratch/st.$$.log
done
