#!/bin/bash
# tools/runall.sh [tier]: run every claimed check on /repo, print one line each
cd /verif
for P in $(python3 -c "import json;print(' '.join(c['property_id'] for c in json.load(open('MANIFEST.json'))['checks']))"); do
  ./check $P --tier ${1:-quick} > /var/tmp/verif-scratch/run.$P.log 2>&1; rc=$?
  echo "$P exit=$rc $(tail -1 /var/tmp/verif-scratch/run.$P.log)"
  grep -c "^VIOLATION" /var/tmp/verif-scratch/run.$P.log | grep -v '^0$' | sed "s/^/   violations: /"
done
