#!/usr/bin/env python3
# tools/seedmd.py: regenerate the seeded-change table of DESIGN.md (section 0d)
# from seeded/<id>/meta.json and seeded/<id>/result.txt (written by
# tools/seedtable.sh). Replaces the lines between the table header and the
# first blank line after it.
import json, os, re, sys
os.chdir('/verif')
rows = []
for sid in sorted(os.listdir('seeded')):
    d = os.path.join('seeded', sid)
    try:
        meta = json.load(open(os.path.join(d, 'meta.json')))
    except Exception:
        meta = {}
    summ = (meta.get('summary') or meta.get('description') or '').replace('|', '/').replace('\n', ' ')[:140]
    res, first = 'not run', ''
    try:
        lines = open(os.path.join(d, 'result.txt')).read().splitlines()
        for ln in lines:
            m = re.match(r'\s*\[(C\d\d)\] (NOT-DISCHARGED|VACUOUS) (.*?): ', ln)
            if m and not first:
                first = m.group(3)
        res = lines[-1].split(' ', 1)[1] if lines else 'not run'
    except Exception:
        pass
    rows.append('| %s | %s | %s | %s |' % (sid, summ, res, ('`' + first + '`') if first else ''))
s = open('DESIGN.md').read().split('\n')
hdr = next(i for i, l in enumerate(s) if l.startswith('| seed | change (one line)'))
end = hdr + 2
while end < len(s) and s[end].startswith('|'):
    end += 1
s[hdr + 2:end] = rows
open('DESIGN.md', 'w').write('\n'.join(s))
det = sum(1 for r in rows if '| DETECTED' in r)
print('%d rows, %d detected, %d missed' % (len(rows), det, sum(1 for r in rows if '| MISSED' in r)))
