#!/bin/bash
# tools/mutant.sh <prop> <file-relative-to-repo> <sed expression>  : run a check on a mutated scratch copy
set -u
PROP="$1"; FILE="$2"; SED="$3"
S=/var/tmp/verif-scratch/mut.$$
mkdir -p /var/tmp/verif-scratch
rsync -a --exclude .git /repo/ "$S/"
sed -i "$SED" "$S/$FILE"
if diff -q "/repo/$FILE" "$S/$FILE" >/dev/null; then echo "MUTANT DID NOT APPLY"; rm -rf "$S"; exit 3; fi
(cd "$S" && GOFLAGS=-mod=mod GOPROXY=off go build ./... 2>&1 | head -5)
/verif/bin/vcgen check -prop "$PROP" -repo "$S" -nocache -out /var/tmp/verif-scratch/out.$$ 2>&1 | grep -v "^UNSUPPORTED" | head -${LINES_MAX:-12}
rc=${PIPESTATUS[0]}
rm -rf "$S" /var/tmp/verif-scratch/out.$$
echo "exit=$rc"
