#!/bin/bash
# tools/seedcheck.sh <seed dir with patch.diff, meta.json, demo test> [props...]
# 1. confirms the seed (demo passes unchanged / fails changed, suite passes changed)
# 2. runs the given checks (default: the seed's property) against the changed tree
set -u
export GOFLAGS=-mod=mod GOPROXY=off GOSUMDB=off GOTOOLCHAIN=local
D="$1"; shift
PROP=$(python3 -c "import json;print(json.load(open('$D/meta.json'))['property'])")
DEMO=$(python3 -c "import json;print(json.load(open('$D/meta.json'))['demo_file'])")
CMD=$(python3 -c "import json;print(json.load(open('$D/meta.json'))['demo_cmd'])")
PROPS="${*:-$PROP}"
S=/var/tmp/verif-scratch/seed.$$
mkdir -p /var/tmp/verif-scratch
rsync -a --exclude .git /repo/ "$S/"
cd "$S"
if [ "${SKIP_CONFIRM:-0}" != "1" ]; then
cp "$D/$(basename $DEMO)" "$S/$DEMO"
if $CMD >/tmp/seed.pass.$$ 2>&1; then echo "CONFIRM demo passes on unchanged tree: yes"; else echo "CONFIRM demo passes on unchanged tree: NO"; tail -5 /tmp/seed.pass.$$; fi
fi
if ! patch -p1 -s < "$D/patch.diff"; then echo "PATCH DID NOT APPLY"; cd /; rm -rf "$S"; exit 3; fi
if [ "${SKIP_CONFIRM:-0}" != "1" ]; then
if $CMD >/tmp/seed.fail.$$ 2>&1; then echo "CONFIRM demo fails with change: NO (it passed)"; else echo "CONFIRM demo fails with change: yes"; fi
rm -f "$S/$DEMO"
if go build ./... >/dev/null 2>&1 && go test -vet=off -count=1 ./p9 ./vecnet ./linux ./fsimpl/composefs ./fsimpl/localfs ./fsimpl/qids ./fsimpl/staticfs >/tmp/seed.suite.$$ 2>&1; then echo "CONFIRM suite passes with change: yes"; else echo "CONFIRM suite passes with change: NO"; tail -5 /tmp/seed.suite.$$; fi
fi
rm -f "$S/$DEMO"
cd /verif
for P in $PROPS; do
  /verif/bin/vcgen check -prop "$P" -repo "$S" -out /var/tmp/verif-scratch/out.$$ 2>&1 | grep -v "^UNSUPPORTED\|candidate\|^(\|^ (\|^SLOW" | grep -v "tlopen).handle/guard\|tlink).handle/requires@File.Link/target-not-fenced\|requires@walkOne#2/from-read-locked" | head -${LINES_MAX:-8}
  echo "  -> $P exit=${PIPESTATUS[0]}"
done
rm -rf "$S" /var/tmp/verif-scratch/out.$$ /tmp/seed.*.$$
