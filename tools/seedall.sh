#!/bin/bash
# tools/seedall.sh <prop> ... : confirm and test every seed of the given properties, store under /verif/seeded
for P in "$@"; do
 for X in a b; do
  D=/tmp/seed/out-$P/$X
  [ -f $D/patch.diff ] || continue
  OUT=/verif/seeded/$P-$X
  mkdir -p $OUT
  cp $D/patch.diff $D/meta.json $OUT/ 2>/dev/null
  cp $D/*_test.go $OUT/ 2>/dev/null
  LINES_MAX=40 /verif/tools/seedcheck.sh $D ${PROPS_EXTRA:-} > $OUT/check.log 2>&1
  echo "== $P-$X"; grep "CONFIRM\|exit=\|PATCH" $OUT/check.log
 done
done
