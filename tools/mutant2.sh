#!/bin/bash
# tools/mutant2.sh "<props>" <file> <anchor> <old> <new> : mutate first <old> after <anchor>, run checks for props
set -u
PROPS="$1"; FILE="$2"; ANCH="$3"; OLD="$4"; NEW="$5"
S=/var/tmp/verif-scratch/mut.$$
mkdir -p /var/tmp/verif-scratch
rsync -a --exclude .git /repo/ "$S/"
python3 /tmp/m.py "$S/$FILE" "$ANCH" "$OLD" "$NEW" || { echo "MUTANT DID NOT APPLY"; rm -rf "$S"; exit 3; }
(cd "$S" && GOFLAGS=-mod=mod GOPROXY=off go build ./... 2>&1 | head -5)
for P in $PROPS; do
/verif/bin/vcgen check -prop "$P" -repo "$S" -nocache -out /var/tmp/verif-scratch/out.$$ 2>&1 | grep -v "^UNSUPPORTED\|pathNodeFor" | head -${LINES_MAX:-6}
echo "  -> $P exit=${PIPESTATUS[0]}"
done
rm -rf "$S" /var/tmp/verif-scratch/out.$$
