#!/usr/bin/env python3
"""Regenerates /verif/MANIFEST.json from the table below (kept in one place so
that claimed / not-applicable lists stay consistent)."""
import json, subprocess, sys

TECH = "contract-based deductive verification: own VC generator over go/ssa, contracts as //@ comments in /repo (tag verif), obligations discharged by z3 5.1/cvc5 1.0.3/z3 4.8.12"

# property -> (level text, level note, design ref)
CLAIMED = {
 "C01": ("Proof, unbounded over all field values: for each of the 65 registered message types and the 7 sub-records, the encoder's output is the byte layout transcribed from the 9P2000.L description (layout DSL in the contract file; little-endian integers, 2-byte-length strings, counted lists, AttrMask/SetAttrMask bit tables, permission masking) and the decoder recovers the fields from any frame of that shape (functional form fields = parse(frame) and the for-all-m form); protocol numbers of typ(); typed buffer wrappers proved against the primitives; Read8..64/ReadString/Write8..64/append/consume proved at the byte-array level against their bodies.",
         "BRIDGE: the sequence-level contracts of the ten core buffer primitives restate their byte-array contracts over the ghost sequences wr/rd and are assumed (listed in evidence); WriteString's array-level loop is not decided (assumed). send and recv are verified against their bodies (header, size checks, drain, payload vectors); registry.get is abstract; the send-then-recv composition lemma is on paper. Strings/lists longer than 65535 are outside the property's domain (preconditions).",
         "4-C01"),
 "C02": ("Partial proof: no-panic (index, slice, make, nil, type assertion) and overrun behaviour of every buffer primitive and of every decoder for arbitrary bytes and arbitrary receiver state (sticky overflow flag, zero results on overrun, ReadString allocation <= 65535); handleRequest: a connection error ends serving without a reply; every reply is sent exactly once.",
         "recv is verified against its body (size checks, drain-or-close, consumed byte count, decode only after a complete body) but relies on the assumed contract of vecnet.Buffers.ReadFrom (C17 is not claimed). Goroutine scheduling trusted.",
         "4-C02"),
 "C03": ("Proof of the server half: for each request handler, call-site obligations that the backend File method is called on the File bound to the request's fid with exactly the message's fields as arguments, that the reply carries the backend's results, and that a backend error becomes Rlerror(errno(err)) through newErr; ExtractErrno is specified by the uninterpreted function errno.",
         "Client half: 25 clientFile methods send exactly one T-message with their arguments and fid and return the reply's fields (version gating of the u-variants not covered). ExtractErrno's body is not verified (its contract is assumed; listed as UNVERIFIED in the evidence); fmt.Errorf(%w)/errors.Join facts are assumed at DecRef's call sites. Backends are assumed to satisfy the File interface contracts. Trusted: front end, VC generator, solvers.",
         "4-C03"),
 "C04": ("Proof, inductive over histories: every handler is verified against transition rows read off the statement (unbound fid => EBADF, no backend call, table unchanged; clunk/remove always unbind; walk/attach/xattrwalk bind only on success; create rebinds to an open file; open/read/write/readdir/fsync mode checks; opened-directory refusals), with the fid-table invariant as pre- and postcondition of each handler and LookupFID/InsertFID/DeleteFID proved against their bodies.",
         "markChildDeleted and renameChildTo are verified for what they call and with which arguments, but that they preserve the tree invariants is assumed (assumed_ensures, listed); notifyDelete / notifyNameChange (recursion over subtrees) are abstract; xattr read/write sub-protocol rows are partial. Trusted: front end, VC generator, solvers.",
         "4-C04"),
 "C05": ("Proof of per-function reference/ownership deltas with ghost state: owed(r) (references the invocation holds) and own(f) (File ownership): every DecRef drops a held reference, every handler returns with owed unchanged and no File left owned locally (error paths close what they obtained), a File is stored into a fidRef only when freshly obtained (no sharing), Close only on owned Files, no method on a closed File. Table functions proved against their bodies.",
         "The global 'exactly once' follows from the deltas by a counting lemma that is argued on paper, not machine checked. DecRef (close only at zero, only its own file, parent dropped only at zero), TryIncRef (never resurrects) and removeWithName's pin/unpin are verified against their bodies; inside DecRef 'the file of a live reference is still open and owned by it' is presumed (listed). connState.stop is verified for its order (wait for the handlers with no lock held, close both ends, then drop the table's reference of each entry) but not for visiting every entry (map iteration is modelled as arbitrary present keys). Schedules: atomics treated as sequential. Panic exits are not claimed for reference balance.",
         "4-C05"),
 "C06": ("Proof of the structural half: handleRequest sends at most one reply, exactly one per handled request, with the request's tag, under sendMu, after StartTag succeeded, never while holding the receive token and only after a receiver exists; connState.handle always returns a reply whose type is the request's R-type or Rlerror (all 33 handlers verified against the handler interface contract), ENOSYS for non-requests, EFAULT on panic; tags untouched by handlers.",
         "NOT decided by exploration: the scheduling half; what is proved towards it: no backend call is made with the global lock write-held outside rename/remove, no mutex is held at a blocking channel receive, hand-off before handling. F5 (Tflush of its own tag) and F13 (rename/teardown self-deadlock) fixed.",
         "4-C06"),
 "C07": ("Proof of the lock discipline: the lock class of every File method is a precondition on the interface method (read/write/global class over ghost hold counts of renameMu and the path node of the fidRef the receiver was loaded from), checked at every backend call site of every handler; safelyRead/Write/Global are proved against higher-order wrapper contracts; unlink's child-node lock; guarded-by obligations for fidRef.opened/openFlags.",
         "Mutual exclusion of sync.RWMutex is trusted; exclusion is derived from lock sets, not explored over schedules. Files not yet stored in a fidRef are private to the invocation. Known findings F9, F10 (known_findings.txt).",
         "4-C07"),
 "C08": ("Proof of fencing as call-site preconditions (no path-dependent backend call through a fidRef whose path node is deleted; Link target and both rename directories included), refusal rows (ENOENT for walks, EINVAL otherwise, no backend call), rename/remove use the name registered for the reference, tree updates only after backend success, path-node invariants (no nil / self child; live path below live paths) preserved by every handler.",
         "notifyDelete / notifyNameChange (recursion over subtrees) have assumed (UNVERIFIED) contracts; markChildDeleted and renameChildTo are verified for call discipline (which node, which name, fencing of the detached node) with the invariant preservation assumed; removeWithName is verified for lock balance, call preconditions and the child-node entry but not for 'every reference under the name is visited' (map iteration is modelled as arbitrary present keys). Object-identity-through-rename is argued on paper.",
         "4-C08"),
 "C09": ("Proof, for all strings: checkSafeName <=> safe(name); safe(name) is a precondition of every name-bearing File method, discharged at every call site; walks advance one component at a time and only from references whose recorded mode is a directory (loop invariants of doWalk); every name registered in the path tree stays safe (invariant), so names returned by nameFor are safe.",
         "strings.Contains is an uninterpreted atom shared by code and specification. renameChildTo's contract (which re-registers names) is assumed; addChild/addChildLocked/removeChild are verified.",
         "4-C09"),
 "C10": ("Proof of the safety half with ghost state: the fid/tag pools (Get/Put proved against their bodies with the pool invariant 'cache and never-issued range are disjoint from outstanding ids') never hand out an id that is outstanding; every clientFile method releases a fid only after the server confirmed Tclunk/Tremove (call-site obligation at pool.Put with the ghost call log) and releases a fid it allocated when the request fails; sendRecv registers the tag in pending before sending, removes the registration when the send fails (F12 fix) and releases the tag only after the call is over.",
         "NOT decided: the liveness half (a closed connection makes every pending and later call return) is a whole-history property of goroutines/channels; handleOne and its lookup callback are verified (only replies to outstanding tags are accepted, a delivered reply unregisters its tag, a receive error clears pending); waitAndRecv (channel hand-off of the receiver role) has an assumed contract. Tag/fid pools treated as sequential under their mutex (sync.Mutex trusted).",
         "4-C10"),
 "C11": ("Proof, unbounded over len/offset/chunk size: chunk() against ghost-accumulated call log of its callback: chunks contiguous, in order, each within the limit, stop at first short or failed chunk, returned count is the sum and error the last one, len(p)==0 issues exactly one call, no panic, termination (decreases).",
         "Callback assumed honest about counts (0 <= n <= len). readAt/writeAt/ReadAt/WriteAt are under contract (one Tread/Twrite per chunk of the payload size).",
         "4-C11"),
 "C12": ("Proof of the server half from the statement: Tversion always gets Rversion; msize 0 / unparsable / non-L strings => ('unknown', 0) and session unchanged; otherwise msize = min(requested, 4 MiB), version = min(N, 7) in canonical spelling; parseVersion parses canonical strings back to the same number; versionString spelling.",
         "Assumed facts about fmt.Sprintf(%d), strings.Split and strconv.ParseUint (attached to the call sites, listed in evidence). NewClient's adoption of version and msize is verified (F3 fixed).",
         "4-C12"),
 "C13": ("Proof of the server half: Rread frame <= msize for every count (tread.handle postcondition, with the read-buffer pool contract), Rreaddir frame <= msize (count clamp in treaddir.handle + rreaddir.encode loop invariant: payload <= count, whole entries), encoded sizes of every fixed part.",
         "Client payloadSize derivation is verified in NewClient. msize < 11 cannot admit any reply frame and is excluded (precondition). The read-buffer pool's New closure is verified to make msize-byte buffers; that Get returns such a buffer is assumed at the call site (Tversion not pipelined).",
         "4-C13"),
 "C14": ("Proof of ordering obligations: Rflush is constructed only after WaitTag(OldTag) returned; WaitTag returns at once for an idle tag and otherwise only after a receive on the tag's channel, which only ClearTag closes; ClearTag is called exactly once, after the handler returned and before the reply is sent; tflush.handle has no other effect.",
         "Channel close/receive semantics trusted. F5 (OldTag equal to the flush's own tag) fixed: such a flush is answered directly and the handler is proved never to wait for the request's own tag.",
         "4-C14"),
 "C15": ("Proof: every backend call site has an error outcome and a panic outcome; handlers' replies on backend error are Rlerror(errno(err)); lock balance on normal and panic exits of every handler and of the lock wrappers (deferred unlocks); fid table unchanged on error (clunk/remove still unbind); references balanced and obtained Files closed on error paths.",
         "connState.handle's recover (EFAULT reply) is verified. Go runtime panics raised asynchronously are out of scope.",
         "4-C15"),
 "C16": ("Partial: proof of two sufficient disciplines only - lock-state preconditions of every mutex operation (no recursive acquisition, unlock only what is held, child node after parent only) and guarded-by obligations for fidRef.opened/openFlags; tree acyclicity invariant used for child-after-parent.",
         "NOT decided: progress (every request answered, lost wake-ups on channels/WaitGroup) and observational isolation are whole-system liveness / 2-safety properties outside per-function contracts. Lock-order levels between different mutex classes and a guarded-by classification of every shared field are not built (only fidRef.opened/openFlags and qids.Mapper.paths are classified). F13 (self-deadlock through DecRef->removeChild) and F8 fixed.",
         "4-C16"),
 "C17": ("Proof, for every segmentation (each Read / recvmsg returns an arbitrary count within its bounds): generic io.Reader path of vecnet.Buffers.ReadFrom against its body - every buffer is filled completely, in order, with exactly the next bytes of the stream (byte k of buffer i is stream byte c0 + sum of earlier lengths + k; nested loop invariants), success iff everything was read, consumed count = bytes delivered; socket path readFromBuffersLinux - in-place advancing of the iovec list after partial reads never indexes past the list, accounts for every byte recvmsg reports, terminates, and succeeds only after consuming exactly the total length; recv reads the 7-byte header with ReadAtLeast, hands ReadFrom exactly the fixed-part and payload vectors whose lengths add up to size-7, decodes only after a complete body, and on success has consumed exactly the declared frame size (so the next frame starts at the right byte); a stream ending mid-frame yields ConnError.",
         "Partial. ASSUMED: recvmsg (one readv through syscall.RawConn.Read with unsafe iovecs - outside the generator's subset) consumes at most the total buffer length and at least one byte when it reports no error; that the bytes land at the right places on the socket path after a partial read (assumed_ensures, listed); io.ReadAtLeast / io.Reader.Read contracts over the ghost stream; the pooled fixed-part buffer and a payload buffer are different arrays (presumed at recv's call). sumlens (sum of buffer lengths) is an uninterpreted function whose defining unfoldings are injected where contracts name them (true by definition; induction on paper). Send side / several frames per read follow from the exact-consumption postcondition by induction over frames, on paper.",
         "4-C17"),
 "C18": ("Proof: every decoder is verified with the receiver object in an arbitrary initial state (recycled object), so its postcondition 'fields are a function of the frame' forces every list to be reset and every field assigned; read replies carry at most count bytes written by this request's ReadAt.",
         "registry.put is verified (the payload reference is dropped before the object goes back into the cache); registry.get is used through the assumed lookup contract of recv; recv's payload-buffer handling is verified. Bridge contracts as in C01.",
         "4-C18"),
 "C19": ("Proof of the per-call page contracts from which the listing property follows: readdir.Readdir (the helper of staticfs and composefs) returns exactly names[offset : min(offset+count, n)] with Offset = index+1 and QID/Type from the table (loop invariant, all offsets/counts/sizes); staticfs.dir.Readdir and composefs.root.Readdir cut every page from the sorted key list (one deterministic order) and pass offset/count through; localfs.Local.Readdir against a ghost model of the OS directory stream: a page is the next slice dirName(offset..), cookies are index+1, a page is full or the directory ended, Type is the QID's type (F6 fixed); the server forwards offset and min(count, msize-11), replies with exactly the backend's entries, and rreaddir.encode sends the longest prefix of whole entries that fits the count (never an empty reply when one entry fits); resume-cookie lemma.",
         "Partial. Assumed: os.File.Seek/Readdirnames behave as a rewindable stream that delivers an unchanged directory in the same order (assumed contracts, listed); maps.Keys + slices.Sort yield the sorted key list (assumed at their call sites); directories do not change during a listing. NOT decided: that a listed QID equals what Walk + GetAttr report for composefs and localfs (only: localfs stats the joined path with the same info() function, staticfs lists the QIDs recorded at construction, and the mapper is stable - C20); the composition over many calls is the resume-cookie lemma plus an induction argued on paper.",
         "4-C19"),
 "C20": ("Proof (unbounded, all 64-bit inputs): encodeLikely against an independent spec function of the dev_t layout, injectivity and bit-63 disjointness as lemmas over that contract; localToQid against a ghost view of its sync.Map and atomic counter (known pairs keep their path, new pairs get a fresh path with bit 63 set, table invariant: values distinct and below the counter, other pairs untouched); qids.Mapper.QIDFor (stable, injective, recorded, invariant preserved) with a guarded-by obligation on Mapper.paths; PathGenerator.NewPath; ModeFromOS/OSMode/QIDType round-trip lemmas over the real SSA for all 2^32 modes.",
         "sync.Map and sync/atomic are modelled sequentially (linearizability trusted); counter wrap-around after 2^63 fallback paths / 2^64 mapper paths excluded by precondition; os.FileInfo.Sys is assumed to return *syscall.Stat_t (as localfs uses it). Findings F7 and F8 fixed (known_findings.txt).",
         "4-C20"),
}

NOT_YET = "check not built"
NA = {
}

def main():
    hooks_commits = subprocess.run(["git","-C","/repo","log","--format=%H","--grep=^verif:"],capture_output=True,text=True).stdout.split()
    checks=[]
    for pid in sorted(CLAIMED):
        text,note,ref=CLAIMED[pid]
        checks.append({
          "property_id":pid,
          "quick_cmd":f"./check {pid} --tier quick",
          "thorough_cmd":f"./check {pid} --tier thorough",
          "evidence_file":f"/verif/evidence/{pid}.json",
          "replay_cmd_template":f"./check {pid} --replay {{path}}",
          "engine":"vcgen",
          "level_claimed":{"category":"proof","text":text,"design_ref":ref},
          "level_note":note,
          "technique":TECH})
    na=[]
    for i in range(1,21):
        pid="C%02d"%i
        if pid in CLAIMED: continue
        na.append({"property_id":pid,"reason":NA.get(pid,NOT_YET)})
    m={"version":1,
     "setup_cmd":"cd /verif && GOFLAGS=-mod=mod GOPROXY=off GOSUMDB=off GOTOOLCHAIN=local go build -o bin/vcgen ./cmd/vcgen",
     "hooks":{"guard":"verif",
              "enable":"go/packages BuildFlags -tags=verif: contracts are read from comment-only files */verif_contracts.go; no executable code is tagged",
              "baseline_off_cmd":"cd /repo && go test -vet=off -count=1 ./...",
              "source_commits":hooks_commits,"add_only":True},
     "engines":[{"name":"vcgen","path":"cmd/vcgen","serves_properties":sorted(CLAIMED),
                 "kind_free_text":"own verification-condition generator over go/ssa (block-predicate encoding, component heaps, bit-vector integers); contracts parsed from //@ comments; obligations raced on z3 5.1.0, cvc5 1.0.3, z3 4.8.12"}],
     "checks":checks,
     "not_applicable":na,
     "notes":"See DESIGN.md. known_findings.txt lists genuine defects recorded or fixed."}
    json.dump(m,open("/verif/MANIFEST.json","w"),indent=1)
    print("claimed:",sorted(CLAIMED))
main()
