#!/usr/bin/env python3
"""Regenerates /verif/MANIFEST.json from the table below (kept in one place so
that claimed / not-applicable lists stay consistent)."""
import json, subprocess, sys

TECH = "contract-based deductive verification: own VC generator over go/ssa, contracts as //@ comments in /repo (tag verif), obligations discharged by z3 5.1/cvc5 1.0.3/z3 4.8.12"

# property -> (level text, level note, design ref)
CLAIMED = {
 "C20": ("Proof (unbounded, all 64-bit inputs): encodeLikely against an independent spec function of the dev_t layout, injectivity and bit-63 disjointness as lemmas over that contract, ModeFromOS/OSMode/QIDType round-trip lemmas over the real SSA of the functions for all 2^32 modes.",
         "Trusted: go/ssa front end, own VC generator, solvers. Not yet under contract in this check: localToQid's fallback table and qids.Mapper (stability / concurrency halves of the statement); see DESIGN.md section 4-C20.",
         "4-C20"),
}

NOT_YET = "check not built yet (build in progress; DESIGN.md section 7 gives the order)"
NA = {}

def main():
    hooks_commits = subprocess.run(["git","-C","/repo","log","--format=%H","--grep=^verif:"],capture_output=True,text=True).stdout.split()
    checks=[]
    for pid in sorted(CLAIMED):
        text,note,ref=CLAIMED[pid]
        checks.append({
          "property_id":pid,
          "quick_cmd":f"./check {pid} --tier quick",
          "thorough_cmd":f"./check {pid} --tier thorough",
          "evidence_file":f"/verif/evidence/{pid}.json",
          "replay_cmd_template":f"./check {pid} --replay {{path}}",
          "engine":"vcgen",
          "level_claimed":{"category":"proof","text":text,"design_ref":ref},
          "level_note":note,
          "technique":TECH})
    na=[]
    for i in range(1,21):
        pid="C%02d"%i
        if pid in CLAIMED: continue
        na.append({"property_id":pid,"reason":NA.get(pid,NOT_YET)})
    m={"version":1,
     "setup_cmd":"cd /verif && GOFLAGS=-mod=mod GOPROXY=off GOSUMDB=off GOTOOLCHAIN=local go build -o bin/vcgen ./cmd/vcgen",
     "hooks":{"guard":"verif",
              "enable":"go/packages BuildFlags -tags=verif: contracts are read from comment-only files */verif_contracts.go; no executable code is tagged",
              "baseline_off_cmd":"cd /repo && go test -vet=off -count=1 ./...",
              "source_commits":hooks_commits,"add_only":True},
     "engines":[{"name":"vcgen","path":"cmd/vcgen","serves_properties":sorted(CLAIMED),
                 "kind_free_text":"own verification-condition generator over go/ssa (block-predicate encoding, component heaps, bit-vector integers); contracts parsed from //@ comments; obligations raced on z3 5.1.0, cvc5 1.0.3, z3 4.8.12"}],
     "checks":checks,
     "not_applicable":na,
     "notes":"See DESIGN.md. known_findings.txt lists genuine defects recorded or fixed."}
    json.dump(m,open("/verif/MANIFEST.json","w"),indent=1)
    print("claimed:",sorted(CLAIMED))
main()
