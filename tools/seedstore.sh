#!/bin/bash
# tools/seedstore.sh <srcdir> "<letters>" <prop> ... : confirm and store seeds from <srcdir>/out-<P>/<letter>/
SRC="$1"; LET="$2"; shift 2
for P in "$@"; do
 for X in $LET; do
  D=$SRC/out-$P/$X
  [ -f $D/patch.diff ] || continue
  OUT=/verif/seeded/$P-$X
  mkdir -p $OUT
  cp $D/patch.diff $D/meta.json $OUT/ 2>/dev/null
  cp $D/*_test.go $OUT/ 2>/dev/null
  VERIF_NO_RETRY=1 LINES_MAX=40 /verif/tools/seedcheck.sh $D ${PROPS_EXTRA:-} > $OUT/check.log 2>&1
  echo "== $P-$X $(grep -c 'CONFIRM.*yes' $OUT/check.log)/3 confirmed; $(grep 'exit=' $OUT/check.log | tr '\n' ' ')"
 done
done
