#!/bin/bash
# tools/seedall2.sh <prop> ... : confirm and store round-2 seeds (c, d) from /var/tmp/seed2/out-<P>/
for P in "$@"; do
 for X in c d; do
  D=/var/tmp/seed2/out-$P/$X
  [ -f $D/patch.diff ] || continue
  OUT=/verif/seeded/$P-$X
  mkdir -p $OUT
  cp $D/patch.diff $D/meta.json $OUT/ 2>/dev/null
  cp $D/*_test.go $OUT/ 2>/dev/null
  VERIF_NO_RETRY=1 LINES_MAX=40 /verif/tools/seedcheck.sh $D ${PROPS_EXTRA:-} > $OUT/check.log 2>&1
  echo "== $P-$X"; grep "CONFIRM\|exit=\|PATCH" $OUT/check.log
 done
done
