; WriteString loop: inductive step. data: Array BV64->BV8, len as BV64. s: Array BV64->BV8 with slen.
(set-logic ALL)
(declare-const d0 (Array (_ BitVec 64) (_ BitVec 8)))
(declare-const d1 (Array (_ BitVec 64) (_ BitVec 8)))
(declare-const s (Array (_ BitVec 64) (_ BitVec 8)))
(declare-const slen (_ BitVec 64))
(declare-const len0 (_ BitVec 64))
(declare-const i (_ BitVec 64))
(declare-const l1 (_ BitVec 64))
; ranges
(assert (bvule slen #x000000000000ffff))
(assert (bvule len0 #x0000000100000000))
(assert (bvult i slen))
; invariant at head: l1 = len0+2+i, forall j<i: d1[len0+2+j]=s[j], prefix preserved
(assert (= l1 (bvadd len0 #x0000000000000002 i)))
(assert (forall ((j (_ BitVec 64))) (=> (bvult j i) (= (select d1 (bvadd len0 #x0000000000000002 j)) (select s j)))))
(assert (forall ((j (_ BitVec 64))) (=> (bvult j (bvadd len0 #x0000000000000002)) (= (select d1 j) (select d0 j)))))
; body: d2 = store d1 l1 s[i]; i2=i+1; l2=l1+1
(define-fun d2 () (Array (_ BitVec 64) (_ BitVec 8)) (store d1 l1 (select s i)))
(define-fun i2 () (_ BitVec 64) (bvadd i #x0000000000000001))
; negated invariant
(assert (not (and
  (forall ((j (_ BitVec 64))) (=> (bvult j i2) (= (select d2 (bvadd len0 #x0000000000000002 j)) (select s j))))
  (forall ((j (_ BitVec 64))) (=> (bvult j (bvadd len0 #x0000000000000002)) (= (select d2 j) (select d0 j)))))))
(check-sat)
