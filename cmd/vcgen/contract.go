package main

// Contract files: structured //@ comments in /repo/**/verif_contracts.go
// (build tag verif, comment-only) and /verif/contracts/assumed.spec.

import (
	"fmt"
	"sort"
	"go/ast"
	"go/parser"
	"go/types"
	"os"
	"regexp"
	"strconv"
	"strings"
)

type Clause struct {
	Local bool // local_ensures: not exported to callers
	Props []string
	Label string
	Text  string
	Expr  ast.Expr
	Where string // file:line
}

type LoopSpec struct {
	Invariants []*Clause
	Decreases  *Clause
	Modifies   []string
}

type AtClause struct {
	Callee string // e.g. "File.Mkdir", "(*fidRef).DecRef", "send"
	Kind   string // requires (obligation before the call) | ensures (checked after)
	Clause *Clause
}

type WrapperSpec struct {
	Param string
	Ops   []string // e.g. "rlock(f.server.renameMu)"
}

type Contract struct {
	Kind         string // func | interface | extern
	Name         string // relative name, e.g. "(*buffer).consume", "File.Mkdir", "strings.Contains"
	Pkg          string // package name for func/interface
	Requires     []*Clause
	Ensures      []*Clause
	PanicEnsures []*Clause
	Modifies     []string
	HasModifies  bool
	Inline       bool
	NoPanic      bool
	MayPanic     bool
	Loops        map[int]*LoopSpec
	At           []*AtClause
	Wrapper      *WrapperSpec
	Safety       []string
	Blocking     []string // props: no mutex may be held at a blocking channel operation
	Params       []string
	Results      []string
	Fresh        bool // result is a freshly allocated object
	Ghost        []string // free-form ghost effect directives, interpreted by the evaluator
	Where        string
	Abstract     bool // body not verified (interface / extern)
	Lemmas       []*Clause
	Provenance   []string // interface-typed parameters that carry the fidRef they were loaded from
	GhostInit    []string
	AllocBound   *Clause
	Logical      [][2]string // logical (universally quantified) variables of the contract: name, type
	BridgeEnsures []*Clause // assumed at call sites, not proved against the body (abstraction bridge)
	AssumedEnsures      []*Clause // postconditions used by callers that the body is NOT checked against (listed in evidence)
	AssumedPanicEnsures []*Clause
	Impls        bool     // interface contract: every implementation in /repo is verified against it
	IfaceType    types.Type
	IfaceSig     *types.Signature
}

type Define struct {
	Name   string
	Params []string
	PTypes []string
	RType  string
	Body   ast.Expr
	Text   string
	Uninterpreted bool
}

var headRe = regexp.MustCompile(`^(func|interface|extern|fparam|functype|define|declare|lemma|inline|constglobal|guard|refcount|reflink|reftable|ownfield|ghostvar|axiom)\s+(.*)$`)
var clauseRe = regexp.MustCompile(`^(requires|ensures|local_ensures|bridge_ensures|assumed_ensures|assumed_panic_ensures|panic_ensures|invariant|decreases|lemma)(\[[A-Za-z0-9, ]*\])?\s*(@[A-Za-z0-9_.\-]+)?\s+(.*)$`)

// ParseContracts reads //@ lines from text (comment-only Go or .spec file).
func ParseContracts(file, text, pkg string, out *ContractSet) error {
	lines := expandGroups(expandLayouts(strings.Split(text, "\n")))
	var cur *Contract
	var lastClause *Clause
	for ln, raw := range lines {
		s := strings.TrimSpace(raw)
		if !strings.HasPrefix(s, "//@") {
			continue
		}
		s = strings.TrimSpace(s[3:])
		if s == "" {
			continue
		}
		if i := strings.Index(s, " //"); i >= 0 { // trailing comment
			s = strings.TrimSpace(s[:i])
		}
		where := fmt.Sprintf("%s:%d", file, ln+1)
		if strings.HasPrefix(s, "|") { // continuation of previous clause
			if lastClause == nil {
				return fmt.Errorf("%s: continuation without clause", where)
			}
			lastClause.Text += " " + strings.TrimSpace(s[1:])
			continue
		}
		if m := headRe.FindStringSubmatch(s); m != nil {
			lastClause = nil
			switch m[1] {
			case "inline":
				// inline a, b, c : pure helpers unfolded from their SSA at call sites
				for _, name := range splitTop(m[2], ',') {
					if name == "" {
						continue
					}
					kind := "func"
					if pkg == "" {
						kind = "extern"
					}
					k := &Contract{Kind: kind, Name: name, Pkg: pkg, Loops: map[int]*LoopSpec{}, Where: where, Inline: true, Abstract: true}
					out.Contracts[contractKey(kind, pkg, name)] = k
					out.Order = append(out.Order, contractKey(kind, pkg, name))
				}
				cur = nil
			case "axiom":
				// axiom <expr> : assumed in every state (facts about library globals)
				out.Axioms = append(out.Axioms, &Clause{Text: strings.TrimSpace(m[2]), Where: where})
				cur = nil
			case "ghostvar":
				// ghostvar $name type
				f := strings.Fields(m[2])
				if len(f) != 2 {
					return fmt.Errorf("%s: bad ghostvar", where)
				}
				out.GhostVars[f[0]] = [2]string{f[1], pkg}
				cur = nil
			case "refcount", "reflink", "reftable", "ownfield":
				// ghost accounting rules, e.g. "refcount fidRef.refs [C05]"
				f := strings.Fields(m[2])
				parts := strings.SplitN(f[0], ".", 2)
				if len(parts) != 2 {
					return fmt.Errorf("%s: bad %s rule", where, m[1])
				}
				gr := &GhostRule{Kind: m[1], Pkg: pkg, Type: parts[0], Field: parts[1], Where: where}
				for _, x := range f[1:] {
					if strings.HasPrefix(x, "[") {
						gr.Props = parseProps(x)
					}
				}
				out.GhostRules = append(out.GhostRules, gr)
				cur = nil
			case "guard":
				// guard T.f[props] read <expr over r> write <expr over r>
				g, err := parseGuard(m[2], pkg, where)
				if err != nil {
					return err
				}
				out.Guards = append(out.Guards, g)
				cur = nil
			case "constglobal":
				// constglobal name = value [props]
				parts := strings.SplitN(m[2], "=", 2)
				if len(parts) != 2 {
					return fmt.Errorf("%s: bad constglobal", where)
				}
				val := strings.TrimSpace(parts[1])
				var props []string
				if i := strings.IndexByte(val, '['); i >= 0 {
					props = parseProps(val[i:])
					val = strings.TrimSpace(val[:i])
				}
				out.ConstGlobals = append(out.ConstGlobals, &ConstGlobal{Pkg: pkg, Name: strings.TrimSpace(parts[0]), Value: val, Props: props, Where: where})
				cur = nil
			case "func", "interface", "extern", "fparam", "functype":
				name := strings.TrimSpace(m[2])
				cur = &Contract{Kind: m[1], Name: name, Pkg: pkg, Loops: map[int]*LoopSpec{}, Where: where}
				if m[1] != "func" {
					cur.Abstract = true
				}
				if m[1] == "fparam" {
					cur.Kind = "fparam"
				}
				if m[1] == "functype" {
					cur.Kind = "functype"
				}
				key := contractKey(m[1], pkg, name)
				if _, dup := out.Contracts[key]; dup {
					return fmt.Errorf("%s: duplicate contract %s", where, key)
				}
				out.Contracts[key] = cur
				out.Order = append(out.Order, key)
			case "define", "declare":
				d, err := parseDefine(m[2], m[1] == "declare")
				if err != nil {
					return fmt.Errorf("%s: %v", where, err)
				}
				out.Defines[d.Name] = d
				cur = nil
			case "lemma":
				cur = &Contract{Kind: "lemma", Name: strings.TrimSpace(m[2]), Pkg: pkg, Loops: map[int]*LoopSpec{}, Where: where, Abstract: true}
				key := contractKey("lemma", pkg, cur.Name)
				out.Contracts[key] = cur
				out.Order = append(out.Order, key)
			}
			continue
		}
		if cur == nil {
			return fmt.Errorf("%s: clause outside a block: %s", where, s)
		}
		// loop K ...
		loopIdx := -1
		if strings.HasPrefix(s, "loop ") {
			rest := strings.TrimSpace(s[5:])
			sp := strings.IndexByte(rest, ' ')
			if sp < 0 {
				return fmt.Errorf("%s: bad loop clause", where)
			}
			k, err := strconv.Atoi(rest[:sp])
			if err != nil {
				return fmt.Errorf("%s: bad loop index", where)
			}
			loopIdx = k
			s = strings.TrimSpace(rest[sp:])
			if cur.Loops[k] == nil {
				cur.Loops[k] = &LoopSpec{}
			}
		}
		if strings.HasPrefix(s, "at ") {
			rest := strings.TrimSpace(s[3:])
			// at <callee> ghost <directive>: ghost step taken just before the call
			if gi := strings.Index(rest, " ghost "); gi >= 0 && !strings.Contains(rest[:gi], " requires") && !strings.Contains(rest[:gi], " ensures") && !strings.Contains(rest[:gi], " assume") {
				cur.At = append(cur.At, &AtClause{Callee: strings.TrimSpace(rest[:gi]), Kind: "ghost", Clause: &Clause{Text: strings.TrimSpace(rest[gi+7:]), Where: where}})
				lastClause = nil
				continue
			}
			// callee name ends before " requires" / " ensures"
			idx := strings.Index(rest, " requires")
			kind := "requires"
			if idx < 0 {
				idx = strings.Index(rest, " ensures")
				kind = "ensures"
			}
			if idx < 0 {
				idx = strings.Index(rest, " assume")
				kind = "assume"
				if idx >= 0 {
					rest = rest[:idx] + " ensures" + rest[idx+len(" assume"):]
				}
			}
			if idx < 0 {
				// presume: an explicit assumption made just before the call (listed in the evidence)
				idx = strings.Index(rest, " presume")
				kind = "presume"
				if idx >= 0 {
					rest = rest[:idx] + " ensures" + rest[idx+len(" presume"):]
				}
			}
			if idx < 0 {
				return fmt.Errorf("%s: bad at clause", where)
			}
			callee := strings.TrimSpace(rest[:idx])
			m := clauseRe.FindStringSubmatch(strings.TrimSpace(rest[idx:]))
			if m == nil {
				return fmt.Errorf("%s: bad at clause body", where)
			}
			cl := mkClause(m, where)
			cur.At = append(cur.At, &AtClause{Callee: callee, Kind: kind, Clause: cl})
			lastClause = cl
			continue
		}
		if m := clauseRe.FindStringSubmatch(s); m != nil {
			cl := mkClause(m, where)
			lastClause = cl
			switch m[1] {
			case "requires":
				cur.Requires = append(cur.Requires, cl)
			case "ensures":
				cur.Ensures = append(cur.Ensures, cl)
			case "local_ensures":
				// proved against the body like ensures, but written over the
				// function's own local variables: not used at call sites
				cl.Local = true
				cur.Ensures = append(cur.Ensures, cl)
			case "bridge_ensures":
				cur.BridgeEnsures = append(cur.BridgeEnsures, cl)
			case "assumed_ensures":
				cur.AssumedEnsures = append(cur.AssumedEnsures, cl)
			case "assumed_panic_ensures":
				cur.AssumedPanicEnsures = append(cur.AssumedPanicEnsures, cl)
			case "panic_ensures":
				cur.PanicEnsures = append(cur.PanicEnsures, cl)
			case "lemma":
				cur.Lemmas = append(cur.Lemmas, cl)
			case "invariant":
				if loopIdx < 0 {
					return fmt.Errorf("%s: invariant outside loop", where)
				}
				cur.Loops[loopIdx].Invariants = append(cur.Loops[loopIdx].Invariants, cl)
			case "decreases":
				if loopIdx < 0 {
					return fmt.Errorf("%s: decreases outside loop", where)
				}
				cur.Loops[loopIdx].Decreases = cl
			}
			continue
		}
		lastClause = nil
		word, rest := s, ""
		if i := strings.IndexByte(s, ' '); i >= 0 {
			word, rest = s[:i], strings.TrimSpace(s[i+1:])
		}
		switch word {
		case "modifies":
			mods := splitTop(rest, ',')
			if loopIdx >= 0 {
				cur.Loops[loopIdx].Modifies = append(cur.Loops[loopIdx].Modifies, mods...)
			} else {
				cur.HasModifies = true
				for _, m := range mods {
					if m != "nothing" && m != "" {
						cur.Modifies = append(cur.Modifies, m)
					}
				}
			}
		case "inline":
			cur.Inline = true
		case "nopanic":
			cur.NoPanic = true
		case "maypanic":
			cur.MayPanic = true
		case "fresh":
			cur.Fresh = true
		case "abstract":
			cur.Abstract = true
		case "params":
			cur.Params = splitTop(rest, ',')
		case "results":
			cur.Results = splitTop(rest, ',')
		case "ghost":
			cur.Ghost = append(cur.Ghost, rest)
		case "ghostinit":
			// ghostinit $a:type = expr, ... : values of the function's own ghost accumulators at entry
			cur.GhostInit = append(cur.GhostInit, splitTop(rest, ',')...)
		case "logical":
			// logical name type, name type : universally quantified over the whole contract
			for _, d := range splitTop(rest, ',') {
				f := strings.Fields(d)
				if len(f) == 2 {
					cur.Logical = append(cur.Logical, [2]string{f[0], f[1]})
				}
			}
		case "impls":
			cur.Impls = true
		case "provenance":
			cur.Provenance = append(cur.Provenance, splitTop(rest, ',')...)
		case "wrapper":
			// wrapper fn during op; op
			parts := strings.SplitN(rest, " during ", 2)
			w := &WrapperSpec{Param: strings.TrimSpace(parts[0])}
			if len(parts) == 2 {
				for _, op := range strings.Split(parts[1], ";") {
					if op = strings.TrimSpace(op); op != "" {
						w.Ops = append(w.Ops, op)
					}
				}
			}
			cur.Wrapper = w
		default:
			if strings.HasPrefix(word, "safety[") {
				cur.Safety = parseProps(word[6:])
			} else if strings.HasPrefix(word, "blocking[") {
				cur.Blocking = parseProps(word[8:])
			} else if strings.HasPrefix(word, "allocbound[") {
				// allocbound[props] expr : every make([]T, n) in the function has n <= expr
				cur.AllocBound = &Clause{Props: parseProps(word[10:]), Text: rest, Where: where, Label: "alloc-bound"}
			} else {
				return fmt.Errorf("%s: unknown clause %q", where, s)
			}
		}
	}
	return nil
}

func mkClause(m []string, where string) *Clause {
	cl := &Clause{Props: parseProps(m[2]), Text: strings.TrimSpace(m[4]), Where: where}
	if m[3] != "" {
		cl.Label = m[3][1:]
	}
	return cl
}

func parseProps(s string) []string {
	s = strings.Trim(s, "[]")
	var out []string
	for _, p := range strings.Split(s, ",") {
		if p = strings.TrimSpace(p); p != "" {
			out = append(out, p)
		}
	}
	return out
}

func contractKey(kind, pkg, name string) string {
	switch kind {
	case "extern":
		return "extern:" + name
	case "interface":
		if pkg == "" {
			return "iface:" + name
		}
		return "iface:" + pkg + "." + name
	case "lemma":
		return "lemma:" + pkg + "." + name
	case "fparam":
		return "fparam:" + pkg + "." + name
	case "functype":
		return "functype:" + pkg + "." + name
	}
	return "func:" + pkg + "." + name
}

type ConstGlobal struct {
	Pkg, Name, Value string
	Props            []string
	Where            string
}

type Guard struct {
	Pkg, Type, Field string
	Props            []string
	Read, Write      *Clause
	Where            string
}

func parseGuard(s, pkg, where string) (*Guard, error) {
	g := &Guard{Pkg: pkg, Where: where}
	head := s
	if i := strings.IndexByte(s, ' '); i >= 0 {
		head = s[:i]
		s = strings.TrimSpace(s[i:])
	} else {
		s = ""
	}
	if i := strings.IndexByte(head, '['); i >= 0 {
		g.Props = parseProps(head[i:])
		head = head[:i]
	}
	parts := strings.SplitN(head, ".", 2)
	if len(parts) != 2 {
		return nil, fmt.Errorf("%s: bad guard target", where)
	}
	g.Type, g.Field = parts[0], parts[1]
	ri := strings.Index(s, "read ")
	wi := strings.Index(s, " write ")
	if strings.HasPrefix(s, "write ") {
		wi = 0
		ri = -1
	}
	if ri == 0 {
		end := len(s)
		if wi > 0 {
			end = wi
		}
		g.Read = &Clause{Props: g.Props, Text: strings.TrimSpace(s[5:end]), Where: where, Label: "read"}
	}
	if wi >= 0 {
		g.Write = &Clause{Props: g.Props, Text: strings.TrimSpace(s[wi+len(" write "):]), Where: where, Label: "write"}
		if wi == 0 {
			g.Write.Text = strings.TrimSpace(s[len("write "):])
		}
	}
	return g, nil
}

// GhostRule ties ghost accounting to fields of the program:
//   refcount T.f   atomic adds on the counter adjust $owed[object]
//   reflink  T.f   storing a reference there hands one owed reference to the link
//   reftable T.f   map entries hold one reference each
//   ownfield T.f   the interface value stored there is owned by the object
type GhostRule struct {
	Kind, Pkg, Type, Field string
	Props                  []string
	Where                  string
}

type ContractSet struct {
	Axioms       []*Clause
	GhostVars    map[string][2]string // ghost component -> (type, package)
	GhostRules   []*GhostRule
	Guards       []*Guard
	Contracts    map[string]*Contract
	Order        []string
	Defines      map[string]*Define
	ConstGlobals []*ConstGlobal
}

func NewContractSet() *ContractSet {
	return &ContractSet{Contracts: map[string]*Contract{}, Defines: map[string]*Define{}, GhostVars: map[string][2]string{}}
}

// define name(a T, b U) R = expr      |  declare name(a T, b U) R
func parseDefine(s string, decl bool) (*Define, error) {
	op := strings.IndexByte(s, '(')
	if op < 0 {
		return nil, fmt.Errorf("bad define %q", s)
	}
	cp := matchParen(s, op)
	if cp < 0 {
		return nil, fmt.Errorf("bad define %q", s)
	}
	d := &Define{Name: strings.TrimSpace(s[:op]), Uninterpreted: decl, Text: s}
	for _, p := range splitTop(s[op+1:cp], ',') {
		f := strings.Fields(p)
		if len(f) != 2 {
			return nil, fmt.Errorf("bad define param %q", p)
		}
		d.Params = append(d.Params, f[0])
		d.PTypes = append(d.PTypes, f[1])
	}
	rest := strings.TrimSpace(s[cp+1:])
	if decl {
		d.RType = rest
		return d, nil
	}
	eqi := strings.Index(rest, "=")
	if eqi < 0 {
		return nil, fmt.Errorf("define without body %q", s)
	}
	d.RType = strings.TrimSpace(rest[:eqi])
	e, err := ParseSpecExpr(strings.TrimSpace(rest[eqi+1:]))
	if err != nil {
		return nil, err
	}
	d.Body = e
	return d, nil
}

func matchParen(s string, open int) int {
	d := 0
	instr := false
	for i := open; i < len(s); i++ {
		ch := s[i]
		if ch == '"' && (i == 0 || s[i-1] != '\\') {
			instr = !instr
		}
		if instr {
			continue
		}
		switch ch {
		case '(', '[', '{':
			d++
		case ')', ']', '}':
			d--
			if d == 0 {
				return i
			}
		}
	}
	return -1
}

func splitTop(s string, sep byte) []string {
	var out []string
	d := 0
	instr := false
	start := 0
	for i := 0; i < len(s); i++ {
		ch := s[i]
		if ch == '"' && (i == 0 || s[i-1] != '\\') {
			instr = !instr
		}
		if instr {
			continue
		}
		switch ch {
		case '(', '[', '{':
			d++
		case ')', ']', '}':
			d--
		default:
			if ch == sep && d == 0 {
				out = append(out, strings.TrimSpace(s[start:i]))
				start = i + 1
			}
		}
	}
	if t := strings.TrimSpace(s[start:]); t != "" || len(out) > 0 {
		out = append(out, t)
	}
	return out
}

// rewriteImpl turns `a ==> b` (right associative, lowest precedence, at any
// parenthesis depth) into implies(a, b) and `a <==> b` into iff(a, b).
func rewriteImpl(s string) string {
	// top-level split
	d := 0
	instr := false
	for i := 0; i+2 < len(s); i++ {
		ch := s[i]
		if ch == '"' && (i == 0 || s[i-1] != '\\') {
			instr = !instr
		}
		if instr {
			continue
		}
		switch ch {
		case '(', '[', '{':
			d++
		case ')', ']', '}':
			d--
		}
		if d == 0 {
			if strings.HasPrefix(s[i:], "<==>") {
				return "iff(" + rewriteImpl(s[:i]) + ", " + rewriteImpl(s[i+4:]) + ")"
			}
		}
	}
	d = 0
	instr = false
	for i := 0; i+2 < len(s); i++ {
		ch := s[i]
		if ch == '"' && (i == 0 || s[i-1] != '\\') {
			instr = !instr
		}
		if instr {
			continue
		}
		switch ch {
		case '(', '[', '{':
			d++
		case ')', ']', '}':
			d--
		}
		if d == 0 && strings.HasPrefix(s[i:], "==>") {
			return "implies(" + rewriteImpl(s[:i]) + ", " + rewriteImpl(s[i+3:]) + ")"
		}
	}
	// descend into groups
	var b strings.Builder
	for i := 0; i < len(s); i++ {
		ch := s[i]
		if ch == '"' {
			j := i + 1
			for j < len(s) && (s[j] != '"' || s[j-1] == '\\') {
				j++
			}
			b.WriteString(s[i:min(j+1, len(s))])
			i = j
			continue
		}
		if ch == '(' || ch == '[' {
			cp := matchParen(s, i)
			if cp < 0 {
				b.WriteString(s[i:])
				break
			}
			inner := s[i+1 : cp]
			parts := splitTop(inner, ',')
			for k := range parts {
				parts[k] = rewriteImpl(parts[k])
			}
			b.WriteByte(ch)
			b.WriteString(strings.Join(parts, ", "))
			b.WriteByte(s[cp])
			i = cp
			continue
		}
		b.WriteByte(ch)
	}
	return b.String()
}

func ParseSpecExpr(text string) (ast.Expr, error) {
	t := rewriteImpl(text)
	e, err := parser.ParseExpr(t)
	if err != nil {
		return nil, fmt.Errorf("spec expr %q: %v", text, err)
	}
	return e, nil
}

func (cl *Clause) Parse() (ast.Expr, error) {
	if cl.Expr != nil {
		return cl.Expr, nil
	}
	e, err := ParseSpecExpr(cl.Text)
	if err != nil {
		return nil, fmt.Errorf("%s: %v", cl.Where, err)
	}
	cl.Expr = e
	return e, nil
}

func readFileString(p string) (string, error) {
	b, err := os.ReadFile(p)
	return string(b), err
}

func hasProp(props []string, p string) bool {
	for _, x := range props {
		if x == p {
			return true
		}
	}
	return false
}

// expandGroups implements clause groups:
//   //@ group NAME            following clause lines (until the next header) are stored, not parsed
//   //@   use NAME            splices the stored lines into the current block
func expandGroups(lines []string) []string {
	groups := map[string][]string{}
	var out []string
	cur := ""
	for _, raw := range lines {
		s := strings.TrimSpace(raw)
		if !strings.HasPrefix(s, "//@") {
			out = append(out, raw)
			continue
		}
		body := strings.TrimSpace(s[3:])
		if strings.HasPrefix(body, "group ") {
			cur = strings.TrimSpace(body[6:])
			groups[cur] = nil
			out = append(out, "")
			continue
		}
		if headRe.MatchString(body) {
			cur = ""
		}
		if cur != "" {
			if strings.HasPrefix(body, "use ") {
				for _, g := range strings.Fields(body[4:]) {
					groups[cur] = append(groups[cur], groups[strings.Trim(g, ",")]...)
				}
			} else if body != "" {
				groups[cur] = append(groups[cur], raw)
			}
			out = append(out, "")
			continue
		}
		if strings.HasPrefix(body, "use ") {
			for _, g := range strings.Fields(body[4:]) {
				out = append(out, groups[strings.Trim(g, ",")]...)
			}
			continue
		}
		out = append(out, raw)
	}
	return out
}

// expandLayouts implements the wire-layout DSL (DESIGN.md 2.3):
//   //@ record T = f:kind ...          sub-record (QID, Attr, ...): codec contracts + spec functions
//   //@ layout T = f:kind ...          message type: the same
//   //@ msgtype T = N                   contract of (*T).typ
// kinds: u8 u16 u32 u64 (integer fields, possibly of a named type), fid32
// (64-bit fid on 4 bytes), perm32 (FileMode masked to 07777 both ways), str
// (2-byte length + bytes), sub (a field whose type has its own record line),
// mask64:F / mask32:F (struct of bools packed by spec function F).
// A field written "-" for its name denotes the promoted embedded struct.
func expandLayouts(lines []string) []string {
	var out []string
	for _, raw := range lines {
		s := strings.TrimSpace(raw)
		if !strings.HasPrefix(s, "//@") {
			out = append(out, raw)
			continue
		}
		body := strings.TrimSpace(s[3:])
		switch {
		case strings.HasPrefix(body, "msgtype "):
			parts := strings.SplitN(body[8:], "=", 2)
			if len(parts) != 2 {
				out = append(out, raw)
				continue
			}
			t, n := strings.TrimSpace(parts[0]), strings.TrimSpace(parts[1])
			out = append(out, "//@ func (*"+t+").typ", "//@   ensures[C01,C06] @protocol-number result == "+n, "//@   nopanic")
		case strings.HasPrefix(body, "layout "), strings.HasPrefix(body, "record "):
			parts := strings.SplitN(body[7:], "=", 2)
			if len(parts) != 2 {
				out = append(out, raw)
				continue
			}
			t := strings.TrimSpace(parts[0])
			var fs [][2]string
			for _, f := range strings.Fields(parts[1]) {
				kv := strings.SplitN(f, ":", 2)
				if len(kv) == 2 {
					fs = append(fs, [2]string{kv[0], kv[1]})
				}
			}
			out = append(out, layoutLines(t, fs)...)
		default:
			out = append(out, raw)
		}
	}
	return out
}

var layoutRegistry = map[string][][2]string{}

// flatSizes lists the encoded size of every leaf field, in wire order, with
// the given access prefix ("old(*self)" or a nested field of it).
func flatSizes(t, prefix string) []string {
	var out []string
	for _, f := range layoutRegistry[t] {
		name, kind := f[0], f[1]
		sub := ""
		if i := strings.IndexByte(kind, ':'); i >= 0 {
			kind, sub = kind[:i], kind[i+1:]
			if j := strings.IndexByte(sub, ':'); j >= 0 {
				sub = sub[:j]
			}
		}
		fld := prefix + "." + name
		if name == "-" {
			fld = prefix
		}
		switch kind {
		case "u8":
			out = append(out, "1")
		case "u16":
			out = append(out, "2")
		case "u32", "fid32", "perm32", "mask32":
			out = append(out, "4")
		case "u64", "mask64":
			out = append(out, "8")
		case "str":
			out = append(out, "2", "len("+fld+")")
		case "sub":
			out = append(out, flatSizes(sub, fld)...)
		}
	}
	return out
}

func layoutLines(t string, fs [][2]string) []string {
	layoutRegistry[t] = fs
	enc, dec := "s", "r"
	var wf, same, fits, lits, sizes []string
	mods := map[string]bool{}
	cur := "s" // remaining sequence while parsing
	for _, f := range fs {
		name, kind := f[0], f[1]
		sub, sub2 := "", ""
		if i := strings.IndexByte(kind, ':'); i >= 0 {
			kind, sub = kind[:i], kind[i+1:]
			if j := strings.IndexByte(sub, ':'); j >= 0 {
				sub, sub2 = sub[:j], sub[j+1:]
			}
		}
		fld := "m." + name
		xfld := "x." + name
		if name == "-" {
			fld, xfld = "m", "x"
		}
		val := ""
		switch kind {
		case "u8", "u16", "u32", "u64":
			w := kind[1:]
			enc = fmt.Sprintf("snoc%s(%s, uint%s(%s))", w, enc, w, fld)
			same = append(same, xfld+" == "+fld)
			fits = append(fits, fmt.Sprintf("has%s(%s)", w, cur))
			val = fmt.Sprintf("conv(take%s(%s))", w, cur)
			cur = fmt.Sprintf("drop%s(%s)", w, cur)
			sizes = append(sizes, map[string]string{"8": "1", "16": "2", "32": "4", "64": "8"}[w])
		case "fid32":
			enc = fmt.Sprintf("snoc32(%s, uint32(%s))", enc, fld)
			same = append(same, xfld+" == fid(uint32("+fld+"))")
			fits = append(fits, "has32("+cur+")")
			val = "fid(take32(" + cur + "))"
			cur = "drop32(" + cur + ")"
			sizes = append(sizes, "4")
		case "perm32":
			enc = fmt.Sprintf("snoc32(%s, uint32(%s))", enc, fld)
			same = append(same, xfld+" == "+fld+" & permissionsMask")
			fits = append(fits, "has32("+cur+")")
			val = "FileMode(take32(" + cur + ")) & permissionsMask"
			cur = "drop32(" + cur + ")"
			sizes = append(sizes, "4")
		case "str":
			enc = fmt.Sprintf("snocstr(%s, string(%s))", enc, fld)
			same = append(same, xfld+" == "+fld)
			wf = append(wf, "len("+fld+") <= 65535")
			fits = append(fits, "hasstr("+cur+")")
			val = "conv(takestr(" + cur + "))"
			cur = "dropstr(" + cur + ")"
			sizes = append(sizes, "2 + len("+fld+")")
		case "sub":
			enc = fmt.Sprintf("enc_%s(%s, %s)", sub, enc, fld)
			same = append(same, fmt.Sprintf("same_%s(%s, %s)", sub, xfld, fld))
			wf = append(wf, fmt.Sprintf("wf_%s(%s)", sub, fld))
			mods[sub] = true
			fits = append(fits, fmt.Sprintf("fits_%s(%s)", sub, cur))
			val = fmt.Sprintf("parse_%s(%s)", sub, cur)
			cur = fmt.Sprintf("rest_%s(%s)", sub, cur)
			sizes = append(sizes, fmt.Sprintf("size_%s(%s)", sub, fld))
		case "mask64", "mask32":
			w := kind[4:]
			enc = fmt.Sprintf("snoc%s(%s, %s(%s))", w, enc, sub, fld)
			same = append(same, xfld+" == "+fld)
			fits = append(fits, fmt.Sprintf("has%s(%s)", w, cur))
			val = fmt.Sprintf("%s(take%s(%s))", sub2, w, cur)
			cur = fmt.Sprintf("drop%s(%s)", w, cur)
			sizes = append(sizes, map[string]string{"32": "4", "64": "8"}[w])
		}
		if name == "-" {
			lits = append(lits, "-:"+val)
		} else {
			lits = append(lits, name+": "+val)
		}
	}
	// encoders mask permission fields
	encW := enc
	for _, f := range fs {
		if f[1] == "perm32" {
			encW = strings.Replace(encW, "uint32(m."+f[0]+")", "uint32(m."+f[0]+" & permissionsMask)", 1)
		}
	}
	for i := len(fs) - 1; i >= 0; i-- {
		name, kind := fs[i][0], fs[i][1]
		sub := ""
		if j := strings.IndexByte(kind, ':'); j >= 0 {
			kind, sub = kind[:j], kind[j+1:]
			if k := strings.IndexByte(sub, ':'); k >= 0 {
				sub = sub[:k]
			}
		}
		fld := "m." + name
		if name == "-" {
			fld = "m"
		}
		switch kind {
		case "u8", "u16", "u32", "u64":
			dec = fmt.Sprintf("cons%s(uint%s(%s), %s)", kind[1:], kind[1:], fld, dec)
		case "fid32", "perm32":
			dec = fmt.Sprintf("cons32(uint32(%s), %s)", fld, dec)
		case "str":
			dec = fmt.Sprintf("consstr(string(%s), %s)", fld, dec)
		case "sub":
			dec = fmt.Sprintf("dec_%s(%s, %s)", sub, fld, dec)
		case "mask64", "mask32":
			dec = fmt.Sprintf("cons%s(%s(%s), %s)", kind[4:], sub, fld, dec)
		}
	}
	if len(wf) == 0 {
		wf = []string{"true"}
	}
	if len(same) == 0 {
		same = []string{"true"}
	}
	if len(fits) == 0 {
		fits = []string{"true"}
	}
	if len(sizes) == 0 {
		sizes = []string{"0"}
	}
	parse := t + "{" + strings.Join(lits, ", ") + "}"
	if len(lits) == 1 && strings.HasPrefix(lits[0], "-:") {
		parse = lits[0][2:]
	}
	modl := "$rd, b.overflow, b.data"
	whole := false
	for _, f := range fs {
		if f[0] == "-" {
			whole = true
		} else {
			modl += ", self." + f[0]
		}
	}
	if whole {
		modl += ", fields(self)"
	}
	var subs []string
	for sb := range mods {
		subs = append(subs, sb)
	}
	sort.Strings(subs)
	_ = subs
	return []string{
		"//@ define wf_" + t + "(m " + t + ") bool = " + strings.Join(wf, " && "),
		"//@ define enc_" + t + "(s seq, m " + t + ") seq = " + encW,
		"//@ define dec_" + t + "(m " + t + ", r seq) seq = " + dec,
		"//@ define same_" + t + "(x " + t + ", m " + t + ") bool = " + strings.Join(same, " && "),
		"//@ define fits_" + t + "(s seq) bool = " + strings.Join(fits, " && "),
		"//@ define parse_" + t + "(s seq) " + t + " = " + parse,
		"//@ define rest_" + t + "(s seq) seq = " + cur,
		"//@ define size_" + t + "(m " + t + ") int = " + strings.Join(sizes, " + "),
		"//@ func (*" + t + ").encode",
		"//@   requires[C01] @strings-fit-their-16-bit-count wf_" + t + "(*self)",
		"//@   modifies $wr, b.data, arrays(byte)",
		"//@   ensures[C01] @wire-layout wr(b) == enc_" + t + "(old(wr(b)), old(*self))",
		"//@   ensures[C01] @other-buffers-untouched sameWrExcept(b)",
		"//@   ensures[C01,C13] @encoded-size len(b.data) == " + strings.Join(append([]string{"old(len(b.data))"}, flatSizes(t, "old(*self)")...), " + "),
		"//@   nopanic",
		"//@ func (*" + t + ").decode",
		"//@   modifies " + modl,
		"//@   ensures[C01,C18] @fields-are-a-function-of-the-frame !old(b.overflow) && fits_" + t + "(old(rd(b))) ==> *self == parse_" + t + "(old(rd(b))) && rd(b) == rest_" + t + "(old(rd(b))) && !b.overflow",
		"//@   ensures[C01,C18] @decodes-what-was-encoded forall(m, " + t + ", forall(R, seq, wf_" + t + "(m) && !old(b.overflow) && old(rd(b)) == dec_" + t + "(m, R) ==> same_" + t + "(*self, m) && rd(b) == R && !b.overflow))",
		"//@   ensures[C02,C18] @overrun-is-sticky old(b.overflow) ==> b.overflow",
		"//@   ensures[C01] @other-buffers-untouched sameRdExcept(b)",
		"//@   nopanic",
	}
}
