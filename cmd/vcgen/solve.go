package main

import (
	"bytes"
	"context"
	"crypto/sha256"
	"encoding/hex"
	"fmt"
	"os"
	"os/exec"
	"path/filepath"
	"strings"
	"sync"
	"sync/atomic"
	"time"
)

type SolveResult struct {
	Answer  string // unsat | sat | unknown | timeout | error
	Solver  string
	Seconds float64
	Cached  bool
	Output  string
	Model   string
}

type solverSpec struct {
	name string
	args func(timeout time.Duration, file string) []string
}

var solvers = []solverSpec{
	{"z3-new", func(t time.Duration, f string) []string {
		return []string{"z3-new", fmt.Sprintf("-T:%d", int(t.Seconds())+1), "-smt2", f}
	}},
	{"cvc5", func(t time.Duration, f string) []string {
		return []string{"cvc5", fmt.Sprintf("--tlimit=%d", t.Milliseconds()), "--lang", "smt2", f}
	}},
	{"z3", func(t time.Duration, f string) []string {
		return []string{"z3", fmt.Sprintf("-T:%d", int(t.Seconds())+1), "-smt2", f}
	}},
	// (z3 5.1's smt.bv.solver=2 was tried for linear length arithmetic and
	// removed: it answered unsat on a satisfiable query - DESIGN.md, false alarms)
}

var cacheDir = "/verif/.cache"
var useCache = true

// currentProp: the property being checked (interfere[...] directives apply per property)
var currentProp string
var cacheMu sync.Mutex
var fileCtr int64

func cachePath(h string) string { return filepath.Join(cacheDir, h[:2], h) }

func runSolver(ctx context.Context, sp solverSpec, timeout time.Duration, file string) (string, string) {
	args := sp.args(timeout, file)
	cctx, cancel := context.WithTimeout(ctx, timeout+2*time.Second)
	defer cancel()
	cmd := exec.CommandContext(cctx, args[0], args[1:]...)
	var out bytes.Buffer
	cmd.Stdout = &out
	cmd.Stderr = &out
	_ = cmd.Run()
	s := out.String()
	first := ""
	for _, ln := range strings.Split(s, "\n") {
		ln = strings.TrimSpace(ln)
		if ln == "" || strings.HasPrefix(ln, "WARNING") {
			continue
		}
		first = ln
		break
	}
	switch first {
	case "sat", "unsat", "unknown":
		return first, s
	}
	if cctx.Err() != nil || strings.Contains(s, "timeout") || strings.Contains(s, "interrupted") {
		return "timeout", s
	}
	return "error", s
}

// Solve races the installed solvers on one query.
// Hints: obligation name -> solver that decided it last time (committed in
// /verif/baseline/hints.json); only the order in which solvers are tried
// depends on it.
var hints = map[string]string{}

func Solve(query string, timeout time.Duration, scratch string, single bool) SolveResult {
	return SolveHint(query, timeout, scratch, single, "")
}

func SolveHint(query string, timeout time.Duration, scratch string, single bool, hint string) SolveResult {
	sum := sha256.Sum256([]byte(query))
	h := hex.EncodeToString(sum[:])
	if useCache {
		if b, err := os.ReadFile(cachePath(h)); err == nil {
			parts := strings.SplitN(string(b), "\n", 3)
			if len(parts) >= 2 && (parts[0] == "unsat" || parts[0] == "sat") {
				return SolveResult{Answer: parts[0], Solver: parts[1], Cached: true}
			}
		}
	}
	file := filepath.Join(scratch, fmt.Sprintf("%s-%d-%d.smt2", h[:16], os.Getpid(), atomic.AddInt64(&fileCtr, 1)))
	if err := os.WriteFile(file, []byte(query), 0o644); err != nil {
		return SolveResult{Answer: "error", Output: err.Error()}
	}
	defer os.Remove(file)
	start := time.Now()
	// stage 1: z3-new alone, short
	stage1 := 3 * time.Second
	if timeout < stage1 {
		stage1 = timeout
	}
	first := solvers[0]
	for _, sp := range solvers {
		if sp.name == hint {
			first = sp
		}
	}
	ans, out := runSolver(context.Background(), first, stage1, file)
	res := SolveResult{Answer: ans, Solver: first.name, Output: out}
	if ans != "sat" && ans != "unsat" && !single {
		// stage 2: race all
		ctx, cancel := context.WithCancel(context.Background())
		type r struct {
			ans, out, name string
		}
		ch := make(chan r, len(solvers))
		for _, sp := range solvers {
			sp := sp
			go func() {
				a, o := runSolver(ctx, sp, timeout, file)
				ch <- r{a, o, sp.name}
			}()
		}
		var outs []string
		for range solvers {
			x := <-ch
			if x.ans == "sat" || x.ans == "unsat" {
				res = SolveResult{Answer: x.ans, Solver: x.name, Output: x.out}
				break
			}
			outs = append(outs, x.name+": "+x.ans+" "+truncate(strings.TrimSpace(x.out), 300))
			if res.Answer != "unknown" {
				res.Answer = x.ans
			}
			res.Output = strings.Join(outs, "\n")
			res.Solver = "none"
		}
		cancel()
	}
	res.Seconds = time.Since(start).Seconds()
	if useCache && (res.Answer == "unsat" || res.Answer == "sat") {
		cacheMu.Lock()
		p := cachePath(h)
		os.MkdirAll(filepath.Dir(p), 0o755)
		os.WriteFile(p, []byte(res.Answer+"\n"+res.Solver+"\n"), 0o644)
		cacheMu.Unlock()
	}
	return res
}

// Model re-runs a sat query with model production on the given solver.
func Model(query string, solver string, timeout time.Duration, scratch string) string {
	file := filepath.Join(scratch, fmt.Sprintf("model-%d.smt2", time.Now().UnixNano()))
	if err := os.WriteFile(file, []byte(query), 0o644); err != nil {
		return ""
	}
	defer os.Remove(file)
	for _, sp := range solvers {
		if sp.name == solver {
			_, out := runSolver(context.Background(), sp, timeout, file)
			return out
		}
	}
	return ""
}
