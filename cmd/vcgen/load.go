package main

import (
	"fmt"
	"go/types"
	"os"
	"path/filepath"
	"sort"
	"strings"

	"golang.org/x/tools/go/packages"
	"golang.org/x/tools/go/ssa"
	"golang.org/x/tools/go/ssa/ssautil"
)

type Program struct {
	prog  *ssa.Program
	pkgs  map[string]*ssa.Package // by package name (p9, vecnet, localfs, ...)
	tpkgs map[string]*types.Package
	funcs map[string]*ssa.Function // "p9.(*buffer).consume"
	cs    *ContractSet
	repo  string
	files []string // contract files read
}

const modPath = "github.com/hugelgupf/p9"

func Load(repo string, patterns []string, specFiles []string) (*Program, error) {
	cfg := &packages.Config{Mode: packages.LoadAllSyntax, Dir: repo, BuildFlags: []string{"-tags=verif"},
		Env: append(os.Environ(), "GOFLAGS=-mod=mod", "GOPROXY=off", "GOSUMDB=off", "GOTOOLCHAIN=local", "GOOS=linux", "GOARCH=amd64")}
	pkgs, err := packages.Load(cfg, patterns...)
	if err != nil {
		return nil, err
	}
	nerr := 0
	packages.Visit(pkgs, nil, func(p *packages.Package) {
		for _, e := range p.Errors {
			if strings.HasPrefix(p.PkgPath, modPath) {
				fmt.Fprintf(os.Stderr, "load error: %v\n", e)
				nerr++
			}
		}
	})
	if nerr > 0 {
		return nil, fmt.Errorf("%d load errors", nerr)
	}
	prog, spkgs := ssautil.AllPackages(pkgs, ssa.GlobalDebug)
	prog.Build()
	P := &Program{prog: prog, pkgs: map[string]*ssa.Package{}, tpkgs: map[string]*types.Package{}, funcs: map[string]*ssa.Function{}, cs: NewContractSet(), repo: repo}
	for i, sp := range spkgs {
		if sp == nil {
			continue
		}
		pp := pkgs[i]
		if !strings.HasPrefix(pp.PkgPath, modPath) {
			continue
		}
		P.pkgs[sp.Pkg.Name()] = sp
		// contract files: comment-only files named verif_contracts.go
		for _, f := range pp.GoFiles {
			if filepath.Base(f) == "verif_contracts.go" {
				txt, err := readFileString(f)
				if err != nil {
					return nil, err
				}
				if err := ParseContracts(f, txt, sp.Pkg.Name(), P.cs); err != nil {
					return nil, err
				}
				P.files = append(P.files, f)
			}
		}
	}
	for _, p := range prog.AllPackages() {
		P.tpkgs[p.Pkg.Path()] = p.Pkg
	}
	for fn := range ssautil.AllFunctions(prog) {
		if fn.Pkg == nil || !strings.HasPrefix(fn.Pkg.Pkg.Path(), modPath) {
			continue
		}
		P.funcs[funcKey(fn)] = fn
	}
	for _, sf := range specFiles {
		txt, err := readFileString(sf)
		if err != nil {
			return nil, err
		}
		if err := ParseContracts(sf, txt, "", P.cs); err != nil {
			return nil, err
		}
		P.files = append(P.files, sf)
	}
	return P, nil
}

// funcKey: "<pkgname>.<relative name>", e.g. p9.(*buffer).consume, p9.checkSafeName, p9.(*tmkdir).do$1
func funcKey(fn *ssa.Function) string {
	if fn.Pkg == nil {
		return fn.String()
	}
	return fn.Pkg.Pkg.Name() + "." + relName(fn)
}

func relName(fn *ssa.Function) string {
	if fn.Pkg == nil {
		return fn.String()
	}
	return fn.RelString(fn.Pkg.Pkg)
}

// externName: full name for functions outside the module, e.g. strings.Contains,
// (*sync.RWMutex).RLock, (encoding/binary.littleEndian).PutUint32
func externName(fn *ssa.Function) string {
	return fn.String()
}

func (p *Program) FuncContract(fn *ssa.Function) *Contract {
	if fn.Pkg != nil && strings.HasPrefix(fn.Pkg.Pkg.Path(), modPath) {
		if c, ok := p.cs.Contracts["func:"+funcKey(fn)]; ok {
			return c
		}
	}
	if c, ok := p.cs.Contracts["extern:"+externName(fn)]; ok {
		return c
	}
	// instantiations of a generic function share the contract of the generic
	// (golang.org/x/exp/maps.Keys[map[string]T] -> golang.org/x/exp/maps.Keys)
	if n := externName(fn); strings.Contains(n, "[") {
		if c, ok := p.cs.Contracts["extern:"+n[:strings.Index(n, "[")]]; ok {
			return c
		}
	}
	return nil
}

func (p *Program) IfaceContract(recv types.Type, method string) *Contract {
	// named interface: "<pkgname>.<Iface>.<method>"; builtin error: "error.Error"
	name := ifaceName(recv)
	if c, ok := p.cs.Contracts["iface:"+name+"."+method]; ok {
		return c
	}
	return nil
}

func ifaceName(t types.Type) string {
	if n, ok := t.(*types.Named); ok {
		if n.Obj().Pkg() == nil {
			return "." + n.Obj().Name() // error
		}
		return n.Obj().Pkg().Name() + "." + n.Obj().Name()
	}
	if a, ok := t.(*types.Alias); ok {
		return ifaceName(types.Unalias(a))
	}
	return "." + typeKey(t)
}

func (p *Program) sortedFuncKeys() []string {
	var ks []string
	for k := range p.funcs {
		ks = append(ks, k)
	}
	sort.Strings(ks)
	return ks
}
