package main

import (
	"fmt"
	"go/types"
	"regexp"
	"sort"
	"strings"

	"golang.org/x/tools/go/ssa"
)

type FuncResult struct {
	Key         string
	Contract    *Contract
	Obls        []*Obligation
	Ctx         *Ctx
	Unsupported []string
	CallLog     []string
}

func (e *Eval) bindParams(env *Env, fr *Frame) {
	for n, tv := range fr.extraBinds {
		env.vars[n] = tv
	}
	for n, tv := range e.logicals {
		if fr == e.root {
			env.vars[n] = tv
		}
	}
	if fr.fn.Signature.Recv() != nil && len(fr.params) > 0 {
		env.bind("self", fr.params[0], fr.fn.Params[0].Type())
	}
	for i, fv := range fr.fn.FreeVars {
		// captured variables by source name (a variable captured by
		// reference has pointer type: write *name)
		if i < len(fr.free) {
			env.bindIfAbsent(fv.Name(), fr.free[i], fv.Type())
		}
	}
	for i, p := range fr.fn.Params {
		if i < len(fr.params) {
			env.bind(p.Name(), fr.params[i], p.Type())
			env.bind(p.Name()+"0", fr.params[i], p.Type()) // entry value (parameters are mutable)
			env.bind(fmt.Sprintf("arg%d", i), fr.params[i], p.Type())
		}
	}
}

func allProps(k *Contract) []string {
	set := map[string]bool{}
	add := func(cls []*Clause) {
		for _, cl := range cls {
			for _, p := range cl.Props {
				set[p] = true
			}
		}
	}
	add(k.Requires)
	add(k.Ensures)
	add(k.PanicEnsures)
	add(k.AssumedEnsures)
	add(k.AssumedPanicEnsures)
	for _, l := range k.Loops {
		add(l.Invariants)
	}
	for _, a := range k.At {
		add([]*Clause{a.Clause})
	}
	for _, p := range k.Safety {
		set[p] = true
	}
	for _, p := range k.Blocking {
		set[p] = true
	}
	var out []string
	for p := range set {
		out = append(out, p)
	}
	sort.Strings(out)
	return out
}

// VerifyFunc generates the obligations of one function against its contract.
func VerifyFunc(p *Program, key string, fn *ssa.Function, k *Contract) *FuncResult {
	e := NewEval(p)
	pkg := fn.Pkg
	if pkg == nil {
		pkg = p.pkgs[k.Pkg]
	}
	e.rootPkg = pkg
	e.rootC = k
	e.rootKey = key
	e.safety = k.Safety
	e.blocking = k.Blocking
	e.atMatched = map[*AtClause]bool{}
	c := e.c
	e.entry = NewState()
	fr := e.newFrame(fn, nil)
	fr.contract = k
	e.root = fr
	e.curSt = e.entry
	c.Assert("(>= " + e.top(e.entry) + " 0)")
	var args []Val
	for i, prm := range fn.Params {
		if _, ok := prm.Type().Underlying().(*types.Signature); ok {
			args = append(args, Val{ParamFn: prm.Name(), T: c.Fresh("p."+prm.Name(), "Int")})
			continue
		}
		v := c.Fresh("p."+prm.Name(), c.Sort(prm.Type()))
		c.Assert(e.typeInv(prm.Type(), v))
		e.noteVal(prm.Type(), v)
		if i == 0 && fn.Signature.Recv() != nil {
			if _, ok := prm.Type().Underlying().(*types.Pointer); ok {
				c.Assert("(> " + v + " 0)")
				c.Assume("method receivers are non-nil")
			}
		}
		args = append(args, Val{T: v})
	}
	fr.params = args
	c.DeclComp("$didpanic", "Bool")
	c.Assert(not(c.Get(e.entry, "$didpanic")))
	if k.Kind == "interface" && len(args) > 0 {
		// implementation checked against the interface method's contract
		fr.extraBinds = map[string]TV{}
		rt := fn.Params[0].Type()
		it := k.IfaceType
		fr.extraBinds["recv"] = TV{T: fmt.Sprintf("(mk-iface %s %s)", c.TypeTag(rt), c.Box(rt, args[0].T)), Ty: it}
		for i := 1; i < len(fn.Params); i++ {
			n := ""
			if i-1 < len(k.Params) {
				n = k.Params[i-1]
			} else if k.IfaceSig != nil && i-1 < k.IfaceSig.Params().Len() {
				n = k.IfaceSig.Params().At(i - 1).Name()
			}
			if n != "" && n != "_" {
				fr.extraBinds[n] = TV{T: args[i].T, Ty: fn.Params[i].Type()}
			}
			fr.extraBinds[fmt.Sprintf("arg%d", i-1)] = TV{T: args[i].T, Ty: fn.Params[i].Type()}
		}
	}
	for _, pn := range k.Provenance {
		for i, prm := range fn.Params {
			if prm.Name() == pn && i < len(args) {
				g := c.Fresh("prov."+pn, "Int")
				c.Assert("(>= " + g + " 0)")
				e.prov[args[i].T] = g
				e.provGhost[g] = true
				// the parameter is the file of that fidRef (when it has one)
				if ft := e.fidRefType(); ft != nil {
					if idx := fieldIndex(ft, "file"); idx >= 0 {
						c.Assert(implies("(not (= "+g+" 0))", eq(sel(c.Get(e.entry, e.declField(ft, idx)), g), args[i].T)))
					}
				}
			}
		}
	}
	for _, fv := range fn.FreeVars {
		// a closure verified on its own: captured variables are arbitrary
		// values of their types (what the creation site guarantees about
		// them is the closure contract's precondition, checked by the
		// `at closure:<name>` clause of the creating function)
		fr.free = append(fr.free, e.havocVal("fv."+fv.Name(), fv.Type(), "true"))
	}
	env := e.newEnv(pkg, e.entry, e.entry)
	e.logicals = map[string]TV{}
	for _, lv := range k.Logical {
		t := env.lookupType(lv[1])
		if t == nil {
			c.Unsupported("logical %s: unknown type %s", lv[0], lv[1])
			continue
		}
		v := c.Fresh("logical."+lv[0], env.sortOf(t))
		if t != seqType && t != strsType && t != qidsType {
			c.Assert(e.typeInv(t, v))
		}
		e.logicals[lv[0]] = TV{T: v, Ty: t}
	}
	e.bindParams(env, fr)
	for _, gi := range k.GhostInit {
		eqi := strings.Index(gi, "=")
		lhs := strings.TrimSpace(gi[:eqi])
		parts := strings.SplitN(lhs, ":", 2)
		if len(parts) != 2 {
			c.Unsupported("bad ghostinit %q", gi)
			continue
		}
		ty := env.lookupType(parts[1])
		ex, err := ParseSpecExpr(strings.TrimSpace(gi[eqi+1:]))
		if ty == nil || err != nil {
			c.Unsupported("bad ghostinit %q", gi)
			continue
		}
		c.DeclComp(parts[0], env.sortOf(ty))
		v := env.eval(ex)
		if v.T == "nil" {
			v = TV{T: c.Zero(ty), Ty: ty}
		} else if v.Ty == nil {
			v = env.coerce(v, ty)
		}
		c.Assert(eq(c.Get(e.entry, parts[0]), v.T))
	}
	e.assumeConstGlobals(pkg, e.entry)
	for _, cl := range k.Requires {
		ex, err := cl.Parse()
		if err != nil {
			c.Unsupported("%v", err)
			continue
		}
		c.Assert(env.evalBool(ex))
	}
	props := allProps(k)
	e.computeAllowed(k, env)
	oc := e.evalFunc(fr, args, e.entry.Clone(), "true")

	// ensures
	post := e.newEnv(pkg, oc.St, e.entry)
	e.bindParams(post, fr)
	e.bindCells(post, fr)
	res := fn.Signature.Results()
	for i := 0; i < res.Len() && i < len(oc.Results); i++ {
		n := res.At(i).Name()
		if i < len(k.Results) {
			n = k.Results[i]
		}
		post.bind(n, oc.Results[i], res.At(i).Type())
		post.bind(fmt.Sprintf("result%d", i), oc.Results[i], res.At(i).Type())
		if i == 0 {
			post.bind("result", oc.Results[i], res.At(i).Type())
		}
	}
	for _, cl := range k.Ensures {
		ex, err := cl.Parse()
		if err != nil {
			c.Unsupported("%v", err)
			continue
		}
		e.oblige("ensures/"+clauseLabel(cl, k.Ensures), "ensures", cl.Props, oc.NormalCond, post.evalGoal(ex), cl.Text, cl.Where)
	}
	ppost := e.newEnv(pkg, oc.PanicSt, e.entry)
	e.bindParams(ppost, fr)
	for _, cl := range k.PanicEnsures {
		ex, err := cl.Parse()
		if err != nil {
			c.Unsupported("%v", err)
			continue
		}
		e.oblige("panic-ensures/"+clauseLabel(cl, k.PanicEnsures), "panic-ensures", cl.Props, oc.PanicCond, ppost.evalGoal(ex), cl.Text, cl.Where)
	}
	if k.NoPanic && !k.MayPanic {
		e.oblige("nopanic", "nopanic", props, oc.PanicCond, "false", "the function does not panic under its precondition", k.Where)
	}
	if k.Wrapper != nil {
		e.declHeld()
		c.DeclComp("$fncalls", "Int")
		h0 := c.Get(e.entry, "$held")
		wp := []string{"C07", "C15", "C16"}
		e.oblige("wrapper/calls-fn-once", "wrapper", wp, oc.NormalCond, eq(c.Get(oc.St, "$fncalls"), "(+ "+c.Get(e.entry, "$fncalls")+" 1)"), "the callback is called exactly once", k.Where)
		e.oblige("wrapper/locks-restored", "wrapper", wp, oc.NormalCond, eq(c.Get(oc.St, "$held"), h0), "lock state restored on return", k.Where)
		e.oblige("wrapper/locks-restored-on-panic", "wrapper", wp, oc.PanicCond, eq(c.Get(oc.PanicSt, "$held"), h0), "lock state restored on panic", k.Where)
		if len(oc.Results) == 1 {
			if _, ok := c.compSort["$fnresult"]; ok {
				e.oblige("wrapper/returns-fn-result", "wrapper", wp, oc.NormalCond, eq(oc.Results[0].T, c.Get(oc.St, "$fnresult")), "returns the callback's result", k.Where)
			}
		}
	} else {
		e.frameObligations(k, fn, env, oc, props)
	}
	// vacuity cover
	if oc.NormalCond != "false" {
		e.obls = append(e.obls, &Obligation{Name: "cover/normal-exit", Props: props, Kind: "cover", Goal: oc.NormalCond, Reach: "true", Mark: c.Mark(), Cover: true, Clause: "requires and a normal exit are jointly satisfiable"})
	} else if oc.PanicCond != "false" {
		e.obls = append(e.obls, &Obligation{Name: "cover/panic-exit", Props: props, Kind: "cover", Goal: oc.PanicCond, Reach: "true", Mark: c.Mark(), Cover: true, Clause: "requires and an exit are jointly satisfiable"})
	}
	if k.Kind == "interface" {
		// the implementation's own contract already covers call sites, loops,
		// locks; here only the interface's postconditions are at stake
		var keep []*Obligation
		for _, o := range e.obls {
			switch o.Kind {
			case "ensures", "panic-ensures", "nopanic", "cover":
				keep = append(keep, o)
			}
		}
		e.obls = keep
	}
	c.checkCounters()
	for _, at := range k.At {
		// an at-clause that matches no call site checks nothing: contract error
		if !e.atMatched[at] && !strings.HasSuffix(at.Callee, "*") {
			c.Unsupported("at %s %s: the function contains no such call", at.Callee, at.Kind)
		}
	}
	return &FuncResult{Key: key, Contract: k, Obls: e.obls, Ctx: c, Unsupported: c.unsupported, CallLog: e.callLog}
}

// computeAllowed evaluates the root's modifies clause (in the entry state)
// into whole components and single locations.
func (e *Eval) computeAllowed(k *Contract, env *Env) {
	c := e.c
	e.allowedAll = map[string]bool{}
	e.allowedIdx = map[string][]string{}
	for _, m := range k.Modifies {
		switch {
		case m == "*":
			e.allowedAll["*"] = true
		case strings.HasPrefix(m, "$") && strings.HasSuffix(m, "*"):
			e.allowedAll[m] = true
		case strings.HasPrefix(m, "$"):
			e.allowedAll[m] = true
		case strings.HasPrefix(m, "elems(") && strings.HasSuffix(m, ")"):
			if ex, err := ParseSpecExpr(m[6 : len(m)-1]); err == nil {
				tv := env.eval(ex)
				if sl, ok := tv.Ty.Underlying().(*types.Slice); ok {
					comp := e.elemComp(sl.Elem())
					e.allowedIdx[comp] = append(e.allowedIdx[comp], "(s.arr "+tv.T+")")
				}
			}
		case strings.HasPrefix(m, "fields(") && strings.HasSuffix(m, ")"):
			if ex, err := ParseSpecExpr(m[7 : len(m)-1]); err == nil {
				tv := env.eval(ex)
				if pt, ok := tv.Ty.Underlying().(*types.Pointer); ok && isStruct(pt.Elem()) {
					stt := pt.Elem().Underlying().(*types.Struct)
					for i := 0; i < stt.NumFields(); i++ {
						comp := e.declField(pt.Elem(), i)
						e.allowedIdx[comp] = append(e.allowedIdx[comp], tv.T)
					}
				}
			}
		case strings.HasPrefix(m, "implsof(") && strings.HasSuffix(m, ")"):
			for _, t := range e.implsOf(env, m[8:len(m)-1]) {
				stt := t.Underlying().(*types.Struct)
				for i := 0; i < stt.NumFields(); i++ {
					e.allowedAll[fieldComp(t, i)] = true
				}
			}
		case strings.HasPrefix(m, "maps(") && strings.HasSuffix(m, ")"):
			if ex, err := ParseSpecExpr(m[5 : len(m)-1]); err == nil {
				if t := env.typeExpr(ex); t != nil {
					if mt, ok := t.Underlying().(*types.Map); ok {
						dom, val := e.mapComps(mt)
						e.allowedAll[dom], e.allowedAll[val] = true, true
					}
				}
			}
		case strings.HasPrefix(m, "mapof(") && strings.HasSuffix(m, ")"):
			if ex, err := ParseSpecExpr(m[6 : len(m)-1]); err == nil {
				tv := env.eval(ex)
				if mt, ok := tv.Ty.Underlying().(*types.Map); ok {
					dom, val := e.mapComps(mt)
					e.allowedIdx[dom] = append(e.allowedIdx[dom], tv.T)
					e.allowedIdx[val] = append(e.allowedIdx[val], tv.T)
				}
			}
		case strings.HasPrefix(m, "type:"):
			parts := strings.SplitN(m[5:], ".", 2)
			if t := env.lookupType(parts[0]); t != nil && isStruct(t) {
				stt := t.Underlying().(*types.Struct)
				for i := 0; i < stt.NumFields(); i++ {
					if len(parts) == 1 || stt.Field(i).Name() == parts[1] {
						e.allowedAll[fieldComp(t, i)] = true
					}
				}
			}
		case strings.HasPrefix(m, "arrays(") && strings.HasSuffix(m, ")"):
			if t := env.lookupType(m[7 : len(m)-1]); t != nil {
				e.allowedAll[e.elemComp(t)] = true
			}
		default:
			if ex, err := ParseSpecExpr(m); err == nil {
				if a := env.evalAddr(ex); a != nil {
					if a.Kind == "cell" {
						e.allowedAll[a.Comp] = true
					} else {
						e.allowedIdx[a.Comp] = append(e.allowedIdx[a.Comp], a.Base)
					}
				}
			}
		}
	}
	_ = c
}

func (e *Eval) compAllowed(comp string) bool {
	if e.allowedAll["*"] || e.allowedAll[comp] {
		return true
	}
	for w := range e.allowedAll {
		if strings.HasSuffix(w, "*") && strings.HasPrefix(comp, w[:len(w)-1]) {
			return true
		}
	}
	return false
}

// frameObligations: every heap / ghost component is unchanged except at the
// locations the modifies clause names and at objects allocated by the call.
func (e *Eval) frameObligations(k *Contract, fn *ssa.Function, env *Env, oc Outcome, props []string) {
	c := e.c
	if oc.NormalCond == "false" || e.allowedAll["*"] {
		return
	}
	var comps []string
	for comp := range c.compSort {
		comps = append(comps, comp)
	}
	sort.Strings(comps)
	for _, comp := range comps {
		if strings.HasPrefix(comp, "L.") || strings.HasPrefix(comp, "$c.") || e.compAllowed(comp) {
			continue
		}
		switch comp {
		case "$recovered", "$fncalls", "$fnresult", "$top":
			continue
		}
		fin := c.Get(oc.St, comp)
		ini := c.entryName(comp)
		if fin == ini {
			continue
		}
		var g string
		if strings.HasPrefix(c.compSort[comp], "(Array Int ") && !strings.HasPrefix(comp, "$") {
			g = e.frameFormula(comp, fin, true)
		} else {
			g = eq(fin, ini)
		}
		e.oblige("frame/"+comp, "frame", props, oc.NormalCond, g, "only the locations named in modifies (and objects allocated by the call) change: "+comp, k.Where)
	}
}

func (c *Ctx) implAxioms() []string {
	var out []string
	var names []string
	for n := range c.implIfaces {
		names = append(names, n)
	}
	sort.Strings(names)
	for _, n := range names {
		it := c.implIfaces[n].Underlying().(*types.Interface)
		for i, t := range c.tagTypes {
			ok := types.Implements(t, it)
			lit := fmt.Sprintf("(%s %d)", q(n), i+1)
			if ok {
				out = append(out, "(assert "+lit+")")
			} else {
				out = append(out, "(assert (not "+lit+"))")
			}
		}
		out = append(out, fmt.Sprintf("(assert (not (%s 0)))", q(n)))
	}
	return out
}

// splitAnd returns the top-level conjuncts of a term.
func splitAnd(t string) []string {
	if !strings.HasPrefix(t, "(and ") {
		return []string{t}
	}
	inner := t[5 : len(t)-1]
	var out []string
	d, start := 0, 0
	inq := false
	for i := 0; i < len(inner); i++ {
		ch := inner[i]
		if ch == '|' {
			inq = !inq
		}
		if inq {
			continue
		}
		switch ch {
		case '(':
			d++
		case ')':
			d--
		case ' ':
			if d == 0 {
				if i > start {
					out = append(out, inner[start:i])
				}
				start = i + 1
			}
		}
	}
	if start < len(inner) {
		out = append(out, inner[start:])
	}
	return out
}

// RelaxedQuery drops every quantified assertion of the context: a model of it
// is only a candidate counterexample (to be confirmed by replay).
func (c *Ctx) RelaxedQuery(o *Obligation) string {
	q := c.Query(o, false)
	var b strings.Builder
	b.WriteString("(set-option :produce-models true)\n")
	for _, ln := range strings.Split(q, "\n") {
		if strings.HasPrefix(ln, "(assert ") && (strings.Contains(ln, "(forall ") || strings.Contains(ln, "(exists ")) && !strings.HasPrefix(ln, "(assert (not ") {
			continue
		}
		if ln == "(check-sat)" {
			continue
		}
		b.WriteString(ln)
		b.WriteByte('\n')
	}
	b.WriteString("(check-sat)\n")
	var vals []string
	if !o.Cover {
		vals = append(vals, o.Reach)
		for _, cj := range splitAnd(o.Goal) {
			if !strings.Contains(cj, "(forall ") && !strings.Contains(cj, "(exists ") {
				vals = append(vals, cj)
			}
		}
	}
	if len(vals) > 0 {
		b.WriteString("(get-value (" + strings.Join(vals, " ") + "))\n")
	}
	b.WriteString("(get-model)\n")
	return b.String()
}

// Query renders the SMT-LIB text of an obligation.
func (c *Ctx) Query(o *Obligation, wantModel bool) string {
	var body strings.Builder
	for _, s := range c.body[:o.Mark] {
		body.WriteString(s)
		body.WriteByte('\n')
	}
	goalText := "(assert " + o.Goal + ")\n"
	if !o.Cover {
		goalText = "(assert (not " + implies(o.Reach, o.Goal) + "))\n"
	}
	for _, d := range c.entryClosureAxioms(body.String() + goalText) {
		body.WriteString(d)
		body.WriteByte('\n')
	}
	body.WriteString(goalText)
	bt := body.String()
	var b strings.Builder
	if wantModel {
		b.WriteString("(set-option :produce-models true)\n")
	}
	b.WriteString("(set-logic ALL)\n")
	var dt, late strings.Builder
	for i, d := range c.decls {
		dt.WriteString(d)
		dt.WriteByte('\n')
		if i >= c.nbase && !strings.HasPrefix(d, "(declare-fun |un") && !strings.HasPrefix(d, "(declare-fun |box") {
			late.WriteString(d)
			late.WriteByte('\n')
		}
	}
	all := late.String() + bt
	b.WriteString(dt.String())
	for _, l := range c.lazy {
		if strings.Contains(all, l.trigger) {
			b.WriteString(l.text)
			b.WriteByte('\n')
		}
	}
	if strings.Contains(bt, "|str") || strings.Contains(bt, "GStr") {
		for _, d := range c.strAxioms() {
			b.WriteString(d)
			b.WriteByte('\n')
		}
	}
	for _, d := range c.implAxioms() {
		b.WriteString(d)
		b.WriteByte('\n')
	}
	b.WriteString(bt)
	b.WriteString("(check-sat)\n")
	if wantModel {
		b.WriteString("(get-model)\n")
	}
	return b.String()
}

// VerifyLemma: closed formulas over spec functions and inline (pure) real
// functions; one obligation per lemma clause.
func VerifyLemma(p *Program, key string, k *Contract) *FuncResult {
	e := NewEval(p)
	e.rootC = nil
	e.rootKey = key
	c := e.c
	e.entry = NewState()
	e.root = &Frame{vals: map[ssa.Value]Val{}, prefix: "lemma."}
	pkg := p.pkgs[k.Pkg]
	e.assumeConstGlobals(pkg, e.entry)
	for _, cl := range k.Lemmas {
		ex, err := cl.Parse()
		if err != nil {
			c.Unsupported("%v", err)
			continue
		}
		env := e.newEnv(pkg, e.entry, e.entry)
		g := env.evalGoal(ex)
		e.oblige("lemma/"+clauseLabel(cl, k.Lemmas), "lemma", cl.Props, "true", g, cl.Text, cl.Where)
	}
	return &FuncResult{Key: key, Contract: k, Obls: e.obls, Ctx: c, Unsupported: c.unsupported}
}

// assumeConstGlobals: package variables declared constglobal have their
// declared value in every state (checked separately by ConstGlobalResult).
func (e *Eval) assumeConstGlobals(pkg *ssa.Package, st *State) {
	for _, ax := range e.p.cs.Axioms {
		ex, err := ax.Parse()
		if err != nil {
			e.c.Unsupported("%v", err)
			continue
		}
		env := e.newEnv(pkg, st, st)
		// library globals named by axioms never change
		for _, m := range regexp.MustCompile(`\b([a-z]+)\.([A-Z][A-Za-z0-9]*)\b`).FindAllStringSubmatch(ax.Text, -1) {
			e.c.constComps["G."+m[1]+"."+m[2]] = true
		}
		e.c.Assert(env.evalBool(ex))
		e.c.Assume("axiom: " + ax.Text)
	}
	if pkg == nil {
		return
	}
	for _, cg := range e.p.cs.ConstGlobals {
		if cg.Pkg != pkg.Pkg.Name() {
			continue
		}
		if strings.HasPrefix(cg.Value, "func:") {
			e.c.constComps["G."+cg.Pkg+"."+cg.Name] = true
			e.usedConstGlobals = true
			continue // function-valued: resolved where the variable is loaded
		}
		env := e.newEnv(pkg, st, st)
		txt := cg.Name + " == " + cg.Value
		if cg.Value == "nonnil" {
			txt = cg.Name + " != nil"
		}
		ex, err := ParseSpecExpr(txt)
		if err != nil {
			e.c.Unsupported("constglobal %s: %v", cg.Name, err)
			continue
		}
		e.c.Assert(env.evalBool(ex))
		e.c.constComps["G."+cg.Pkg+"."+cg.Name] = true
		e.usedConstGlobals = true
	}
}

// ConstGlobalResult checks a constglobal declaration on the IR: the package
// initialiser stores exactly that constant and no other function of the
// package stores to or takes the address of the variable.
func ConstGlobalResult(p *Program, cg *ConstGlobal) *FuncResult {
	e := NewEval(p)
	c := e.c
	key := "constglobal:" + cg.Pkg + "." + cg.Name
	pkg := p.pkgs[cg.Pkg]
	ok := false
	why := ""
	if pkg == nil {
		why = "package not loaded"
	} else if g, isG := pkg.Members[cg.Name].(*ssa.Global); !isG {
		why = "no such package variable"
	} else {
		ok = true
		stores := 0
		for _, fn := range p.funcs {
			if fn.Pkg != pkg {
				continue
			}
			for _, b := range fn.Blocks {
				for _, in := range b.Instrs {
					for _, op := range in.Operands(nil) {
						if *op != g {
							continue
						}
						switch x := in.(type) {
						case *ssa.UnOp:
							// load
						case *ssa.Store:
							if x.Addr == g && fn.Name() == "init" && fn.Synthetic != "" && cg.Value == "nonnil" {
								stores++
								// initialised from errors.New / fmt.Errorf (never nil)
								okInit := false
								if call, isCall := x.Val.(*ssa.Call); isCall {
									if cal := call.Call.StaticCallee(); cal != nil && (cal.String() == "errors.New" || cal.String() == "fmt.Errorf") {
										okInit = true
									}
								}
								if !okInit {
									ok, why = false, "initialiser is not errors.New/fmt.Errorf"
								}
							} else if x.Addr == g && fn.Name() == "init" && fn.Synthetic != "" && strings.HasPrefix(cg.Value, "func:") {
								stores++
								if f, isFn := x.Val.(*ssa.Function); !isFn || f.Name() != strings.TrimPrefix(cg.Value, "func:") {
									ok, why = false, "initialiser is not the function "+strings.TrimPrefix(cg.Value, "func:")
								}
							} else if x.Addr == g && fn.Name() == "init" && fn.Synthetic != "" {
								stores++
								env := e.newEnv(pkg, NewState(), NewState())
								ex, err := ParseSpecExpr(cg.Value)
								if err != nil {
									ok, why = false, err.Error()
									break
								}
								want := env.coerce(env.eval(ex), g.Type().(*types.Pointer).Elem())
								got := e.val(&Frame{fn: fn, vals: map[ssa.Value]Val{}}, x.Val)
								if got.T != want.T {
									ok, why = false, fmt.Sprintf("initialiser is %s, declared %s", got.T, want.T)
								}
							} else {
								ok, why = false, "store in "+fn.String()
							}
						default:
							ok, why = false, fmt.Sprintf("address escapes in %s (%T)", fn, in)
						}
					}
				}
			}
		}
		if ok && stores != 1 {
			ok, why = false, fmt.Sprintf("%d initialising stores", stores)
		}
	}
	goal := "true"
	if !ok {
		goal = "false"
	}
	e.oblige("constglobal/"+cg.Name, "constglobal", cg.Props, "true", goal, "package variable "+cg.Name+" is only ever assigned "+cg.Value+" (by its initialiser) "+why, cg.Where)
	return &FuncResult{Key: key, Obls: e.obls, Ctx: c}
}

func (e *Eval) fidRefType() types.Type {
	if p, ok := e.p.pkgs["p9"]; ok {
		if o := p.Pkg.Scope().Lookup("fidRef"); o != nil {
			return o.Type()
		}
	}
	return nil
}

func fieldIndex(t types.Type, name string) int {
	st, ok := t.Underlying().(*types.Struct)
	if !ok {
		return -1
	}
	for i := 0; i < st.NumFields(); i++ {
		if st.Field(i).Name() == name {
			return i
		}
	}
	return -1
}
