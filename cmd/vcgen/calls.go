package main

import (
	"go/token"
	"fmt"
	"go/types"
	"regexp"
	"strings"

	"golang.org/x/tools/go/ssa"
)

func (e *Eval) callArgs(fr *Frame, cc *ssa.CallCommon) ([]Val, Val) {
	var args []Val
	fnval := Val{}
	if cc.IsInvoke() {
		args = append(args, e.val(fr, cc.Value))
	} else {
		fnval = e.val(fr, cc.Value)
	}
	for _, a := range cc.Args {
		args = append(args, e.val(fr, a))
	}
	return args, fnval
}

func calleeName(cc *ssa.CallCommon) string {
	if cc.IsInvoke() {
		return ifaceShort(cc.Value.Type()) + "." + cc.Method.Name()
	}
	if f := cc.StaticCallee(); f != nil {
		if f.Pkg != nil && strings.HasPrefix(f.Pkg.Pkg.Path(), modPath) {
			return relName(f)
		}
		return f.String()
	}
	if b, ok := cc.Value.(*ssa.Builtin); ok {
		return b.Name()
	}
	if p, ok := cc.Value.(*ssa.Parameter); ok {
		return p.Name()
	}
	return "dyn:" + cc.Value.Name()
}

func ifaceShort(t types.Type) string {
	if n, ok := types.Unalias(t).(*types.Named); ok {
		return n.Obj().Name()
	}
	return typeKey(t)
}

// doCall evaluates a call in state st under reach cur. st is owned by the
// callee from here on (callers pass a clone when they need the original).
func (e *Eval) doCall(fr *Frame, cc *ssa.CallCommon, args []Val, fnval Val, st *State, cur, siteOverride string, panicking bool) Outcome {
	c := e.c
	normal := func(res ...Val) Outcome {
		return Outcome{NormalCond: cur, St: st, Results: res, PanicCond: "false", PanicSt: st}
	}
	name := calleeName(cc)
	site := e.site(name)
	sig := cc.Signature()
	// at-clauses of the root contract (ghost steps, then requires)
	e.atGhost(fr, cc, name, site, args, st, cur)
	e.atClauses(fr, cc, name, site, "presume", args, nil, st, st, cur)
	e.atClauses(fr, cc, name, site, "requires", args, nil, st, st, cur)
	var oc Outcome
	switch {
	case cc.IsInvoke():
		oc = e.invoke(fr, cc, args, st, cur, site)
	default:
		switch v := cc.Value.(type) {
		case *ssa.Builtin:
			oc = e.builtin(fr, cc, v, args, st, cur, site, panicking)
		default:
			switch {
			case fnval.Clo != nil:
				if k := e.p.FuncContract(fnval.Clo.Fn); k != nil && !k.Inline && k.Wrapper == nil {
					// a closure with its own contract (verified separately):
					// captured variables are extra leading parameters
					cf := fnval.Clo.Fn
					var pnames, rnames []string
					var ptypes []types.Type
					var cargs []Val
					for i, fv := range cf.FreeVars {
						pnames = append(pnames, fv.Name())
						ptypes = append(ptypes, fv.Type())
						if i < len(fnval.Clo.Binds) {
							cargs = append(cargs, fnval.Clo.Binds[i])
						}
					}
					for _, p := range cf.Params {
						pnames = append(pnames, p.Name())
						ptypes = append(ptypes, p.Type())
					}
					cargs = append(cargs, args...)
					for i := 0; i < cf.Signature.Results().Len(); i++ {
						rnames = append(rnames, cf.Signature.Results().At(i).Name())
					}
					e.ghostCount(st, "$c."+relName(cf))
					oc = e.applyContract(fr, k, cf.Pkg, pnames, ptypes, rnames, sig, cargs, st, cur, site)
					break
				}
				oc = e.inlineP(fr, fnval.Clo.Fn, args, fnval.Clo.Binds, st, cur, panicking)
			case fnval.Fn != nil:
				oc = e.static(fr, cc, fnval.Fn, args, st, cur, site)
			case fnval.ParamFn != "":
				oc = e.callParamFn(fr, cc, fnval.ParamFn, args, st, cur, site)
			default:
				// a value of a named function type with a `functype` contract
				if nt, ok := types.Unalias(cc.Value.Type()).(*types.Named); ok && nt.Obj().Pkg() != nil {
					key := "functype:" + nt.Obj().Pkg().Name() + "." + nt.Obj().Name()
					if k, ok := e.p.cs.Contracts[key]; ok {
						var pnames []string
						var ptypes []types.Type
						for i := 0; i < sig.Params().Len(); i++ {
							n := fmt.Sprintf("arg%d", i)
							if i < len(k.Params) {
								n = k.Params[i]
							}
							pnames = append(pnames, n)
							ptypes = append(ptypes, sig.Params().At(i).Type())
						}
						c.Assume("contract assumed of every value of function type " + nt.Obj().Name())
						e.ghostCount(st, "$c."+nt.Obj().Name())
						oc = e.applyContract(fr, k, e.p.prog.Package(nt.Obj().Pkg()), pnames, ptypes, k.Results, sig, args, st, cur, site)
						break
					}
				}
				c.Unsupported("call of unknown function value %s in %s", cc.Value.Name(), fr.fn)
				oc = normal(e.resultHavoc(site, sig, cur)...)
			}
		}
	}
	e.atClauses(fr, cc, name, site, "ensures", args, oc.Results, oc.St, st, and(cur, oc.NormalCond))
	e.atClauses(fr, cc, name, site, "assume", args, oc.Results, oc.St, st, and(cur, oc.NormalCond))
	return oc
}

func (e *Eval) resultHavoc(site string, sig *types.Signature, cur string) []Val {
	var rs []Val
	for i := 0; i < sig.Results().Len(); i++ {
		rs = append(rs, e.havocVal(fmt.Sprintf("%s.r%d", site, i), sig.Results().At(i).Type(), cur))
	}
	return rs
}

func (e *Eval) inline(fr *Frame, fn *ssa.Function, args []Val, binds []Val, st *State, cur string) Outcome {
	return e.inlineP(fr, fn, args, binds, st, cur, false)
}

// inlineP: panicking is true when fn runs as a deferred call while its caller
// unwinds (recover() then returns the panic value).
func (e *Eval) inlineP(fr *Frame, fn *ssa.Function, args []Val, binds []Val, st *State, cur string, panicking bool) Outcome {
	nf := e.newFrame(fn, fr)
	nf.free = binds
	nf.panicking = panicking
	return e.evalFunc(nf, args, st, cur)
}

func (e *Eval) static(fr *Frame, cc *ssa.CallCommon, fn *ssa.Function, args []Val, st *State, cur, site string) Outcome {
	c := e.c
	if oc, ok := e.hardcoded(fr, cc, fn, args, st, cur, site); ok {
		return oc
	}
	k := e.p.FuncContract(fn)
	if k == nil {
		// synthetic wrappers (bound methods, thunks) are unfolded
		if fn.Synthetic != "" && len(fn.Blocks) > 0 {
			return e.inline(fr, fn, args, nil, st, cur)
		}
		c.Unsupported("call to %s without contract (in %s)", fn, fr.fn)
		return Outcome{NormalCond: cur, St: st, Results: e.resultHavoc(site, cc.Signature(), cur), PanicCond: "false", PanicSt: st}
	}
	if k.Inline {
		return e.inline(fr, fn, args, nil, st, cur)
	}
	var pnames []string
	for _, p := range fn.Params {
		pnames = append(pnames, p.Name())
	}
	if len(k.Params) > 0 {
		pnames = k.Params
	}
	var rnames []string
	if fn.Signature.Results() != nil {
		for i := 0; i < fn.Signature.Results().Len(); i++ {
			rnames = append(rnames, fn.Signature.Results().At(i).Name())
		}
	}
	if len(k.Results) > 0 {
		rnames = k.Results
	}
	var ptypes []types.Type
	for _, p := range fn.Params {
		ptypes = append(ptypes, p.Type())
	}
	if len(fn.Params) == 0 && fn.Signature != nil { // extern without body
		if fn.Signature.Recv() != nil {
			ptypes = append(ptypes, fn.Signature.Recv().Type())
			if len(k.Params) == 0 {
				pnames = append(pnames, "recv")
			}
		}
		for i := 0; i < fn.Signature.Params().Len(); i++ {
			ptypes = append(ptypes, fn.Signature.Params().At(i).Type())
			if len(k.Params) == 0 {
				pnames = append(pnames, fn.Signature.Params().At(i).Name())
			}
		}
	}
	var pkg *ssa.Package
	if fn.Pkg != nil {
		pkg = fn.Pkg
	}
	if fn.Pkg != nil && strings.HasPrefix(fn.Pkg.Pkg.Path(), modPath) {
		e.ghostCount(st, "$c."+relName(fn))
	} else {
		e.ghostCount(st, "$c."+fn.String())
	}
	if k.Wrapper != nil {
		return e.applyWrapper(fr, k, fn, pkg, pnames, ptypes, args, st, cur, site)
	}
	return e.applyContract(fr, k, pkg, pnames, ptypes, rnames, cc.Signature(), args, st, cur, site)
}

func (e *Eval) invoke(fr *Frame, cc *ssa.CallCommon, args []Val, st *State, cur, site string) Outcome {
	c := e.c
	it := cc.Value.Type()
	k := e.p.IfaceContract(it, cc.Method.Name())
	sig := cc.Signature()
	if k == nil {
		c.Unsupported("invoke %s.%s without interface contract (in %s)", ifaceName(it), cc.Method.Name(), fr.fn)
		return Outcome{NormalCond: cur, St: st, Results: e.resultHavoc(site, sig, cur), PanicCond: "false", PanicSt: st}
	}
	pnames := []string{"recv"}
	ptypes := []types.Type{it}
	for i := 0; i < sig.Params().Len(); i++ {
		n := sig.Params().At(i).Name()
		if n == "" || n == "_" {
			n = fmt.Sprintf("arg%d", i)
		}
		pnames = append(pnames, n)
		ptypes = append(ptypes, sig.Params().At(i).Type())
	}
	if len(k.Params) > 0 {
		pnames = append([]string{"recv"}, k.Params...)
	}
	var rnames []string
	for i := 0; i < sig.Results().Len(); i++ {
		rnames = append(rnames, sig.Results().At(i).Name())
	}
	if len(k.Results) > 0 {
		rnames = k.Results
	}
	var pkg *ssa.Package
	if n, ok := types.Unalias(it).(*types.Named); ok && n.Obj().Pkg() != nil {
		pkg = e.p.prog.Package(n.Obj().Pkg())
	}
	// per-invocation counter of every interface call (ncalls("iface.Method"))
	e.ghostCount(st, "$c."+ifaceShort(it)+"."+cc.Method.Name())
	// ghost call log ($ncalls counts every backend call except Close, which
	// is a matter of the reference counts, C05)
	if ifaceShort(it) == "File" || ifaceShort(it) == "Attacher" {
		if cc.Method.Name() != "Close" {
			e.ghostCount(st, "$ncalls")
		}
		e.ghostCount(st, "$n."+ifaceShort(it)+"."+cc.Method.Name())
	}
	return e.applyContract(fr, k, pkg, pnames, ptypes, rnames, sig, args, st, cur, site)
}

// applyContract: assert requires, havoc modifies, assume ensures.
func (e *Eval) applyContract(fr *Frame, k *Contract, pkg *ssa.Package, pnames []string, ptypes []types.Type, rnames []string, sig *types.Signature, args []Val, st *State, cur, site string) Outcome {
	c := e.c
	e.callLog = append(e.callLog, contractKey(k.Kind, k.Pkg, k.Name))
	if k.Kind == "extern" {
		c.Assume("assumed contract: " + k.Name)
	}
	if k.Kind == "func" && k.Abstract && !k.Inline {
		c.Assume("UNVERIFIED contract of a /repo function (body not checked against it): " + k.Pkg + "." + k.Name)
	}
	if k.Kind == "fparam" {
		c.Assume("contract of function parameter (assumed of every argument): " + k.Name)
	}
	if k.Kind == "interface" {
		c.Assume("interface contract (implementations outside /repo are assumed to satisfy it): " + k.Pkg + "." + k.Name)
	}
	pre := st
	env := e.newEnv(pkg, pre, pre)
	// materialise interior struct pointers (copy-in)
	type copyBack struct {
		ref string
		a   *Addr
		t   types.Type
	}
	var cbs []copyBack
	for i := range args {
		if i < len(ptypes) && args[i].A != nil && args[i].T == "" {
			if pt, ok := ptypes[i].Underlying().(*types.Pointer); ok && isStruct(pt.Elem()) && args[i].A.Kind != "array" {
				r := e.freshRef(site + ".copyin")
				e.storeObj(st, pt.Elem(), r, e.loadAddr(st, args[i].A))
				cbs = append(cbs, copyBack{r, args[i].A, pt.Elem()})
				args[i] = Val{T: r}
			}
		}
	}
	for i, n := range pnames {
		if i < len(args) && i < len(ptypes) {
			env.bind(n, args[i], ptypes[i])
			env.bindIfAbsent(n+"0", args[i], ptypes[i]) // entry value (as in the callee's own verification)
			env.bind(fmt.Sprintf("arg%d", i), args[i], ptypes[i])
		}
	}
	if k.Kind == "func" && sig != nil && sig.Recv() != nil && len(args) > 0 && len(ptypes) > 0 {
		env.bind("self", args[0], ptypes[0])
	}
	for _, cl := range k.Requires {
		ex, err := cl.Parse()
		if err != nil {
			c.Unsupported("%v", err)
			continue
		}
		if mentionsLocalCounters(cl.Text) {
			continue // holds trivially at the callee's entry (its counters start at zero)
		}
		if len(cl.Props) > 0 {
			e.oblige(fmt.Sprintf("requires@%s/%s", site, clauseLabel(cl, k.Requires)), "requires@call", cl.Props, cur, env.evalGoal(ex), cl.Text, cl.Where)
		}
		// A precondition that is an obligation is NOT assumed afterwards: a
		// violated precondition of one property must not prune the paths on
		// which another property's obligations are decided (a seeded change
		// was masked that way). Preconditions without a property tag are
		// modelling assumptions and are assumed.
		if len(cl.Props) == 0 {
			c.Assert(implies(cur, env.evalBool(ex)))
		}
	}
	post := st.Clone()
	e.curSt = post
	oldTop, newTop := e.bumpTop(post)
	e.havocFrame(k, env, post, pre)
	// results
	var results []Val
	if sig != nil && sig.Results() != nil {
		for i := 0; i < sig.Results().Len(); i++ {
			rt := sig.Results().At(i).Type()
			var rv Val
			if k.Fresh && i == 0 {
				r := c.Fresh(site+".fresh", "Int")
				c.Assert(and("(> "+r+" "+oldTop+")", "(<= "+r+" "+newTop+")"))
				e.allocs = append(e.allocs, r)
				rv = Val{T: r}
			} else {
				rv = e.havocVal(fmt.Sprintf("%s.r%d", site, i), rt, cur)
			}
			results = append(results, rv)
		}
	}
	env2 := e.newEnv(pkg, post, pre)
	env2.vars = env.vars
	if sig != nil && sig.Results() != nil {
		for i := range results {
			rt := sig.Results().At(i).Type()
			if i < len(rnames) && rnames[i] != "" && rnames[i] != "_" {
				env2.bind(rnames[i], results[i], rt)
			}
			env2.bind(fmt.Sprintf("result%d", i), results[i], rt)
			if i == 0 {
				env2.bind("result", results[i], rt)
			}
		}
	}
	e.applyGhost(k, env2, post, pre, cur, site)
	normalCond := cur
	out := Outcome{PanicCond: "false", PanicSt: post}
	if k.MayPanic {
		pk := c.Fresh(site+".panics", "Bool")
		out.PanicCond = c.Define(site+".pc", "Bool", and(cur, pk))
		out.PanicSt = post.Clone()
		normalCond = c.Define(site+".nc", "Bool", and(cur, not(pk)))
		envp := e.newEnv(pkg, out.PanicSt, pre)
		envp.vars = env.vars
		for _, cl := range k.PanicEnsures {
			if ex, err := cl.Parse(); err == nil {
				c.Assert(implies(out.PanicCond, envp.evalBool(ex)))
			}
		}
		for _, cl := range k.AssumedPanicEnsures {
			if ex, err := cl.Parse(); err == nil {
				c.Assume("UNVERIFIED postcondition (body not checked against it): " + k.Pkg + "." + k.Name + ": on panic " + cl.Text)
				c.Assert(implies(out.PanicCond, envp.evalBool(ex)))
			}
		}
	}
	for _, cl := range k.Ensures {
		ex, err := cl.Parse()
		if err != nil {
			c.Unsupported("%v", err)
			continue
		}
		if cl.Local || mentionsLogical(k, cl.Text) || mentionsLocalCounters(cl.Text) {
			continue // clauses over the callee's local / logical variables / own call counters are not used by callers
		}
		c.Assert(implies(normalCond, env2.evalBool(ex)))
	}
	for _, cl := range k.AssumedEnsures {
		ex, err := cl.Parse()
		if err != nil {
			c.Unsupported("%v", err)
			continue
		}
		c.Assume("UNVERIFIED postcondition (body not checked against it): " + k.Pkg + "." + k.Name + ": " + cl.Text)
		c.Assert(implies(normalCond, env2.evalBool(ex)))
	}
	for _, cl := range k.BridgeEnsures {
		ex, err := cl.Parse()
		if err != nil {
			c.Unsupported("%v", err)
			continue
		}
		c.Assume("BRIDGE (byte-array contract restated over the ghost byte sequence; assumed): " + k.Pkg + "." + k.Name + ": " + cl.Text)
		c.Assert(implies(normalCond, env2.evalBool(ex)))
	}
	for _, cb := range cbs {
		e.storeAddr(post, cb.a, e.loadObj(post, cb.t, cb.ref))
		if out.PanicCond != "false" {
			e.storeAddr(out.PanicSt, cb.a, e.loadObj(out.PanicSt, cb.t, cb.ref))
		}
	}
	out.NormalCond = normalCond
	out.St = post
	out.Results = results
	return out
}

func clauseLabel(cl *Clause, all []*Clause) string {
	if cl.Label != "" {
		return cl.Label
	}
	for i, x := range all {
		if x == cl {
			return fmt.Sprintf("%d", i)
		}
	}
	return "?"
}

// havocFrame havocs what the contract's modifies clause names. Without a
// modifies clause a contract modifies nothing.
func (e *Eval) havocFrame(k *Contract, env *Env, post, pre *State) {
	c := e.c
	for _, m := range k.Modifies {
		switch {
		case m == "*":
			e.havocAll(post)
		case strings.HasPrefix(m, "$") && strings.HasSuffix(m, "*"):
			for comp := range c.compSort {
				if strings.HasPrefix(comp, m[:len(m)-1]) {
					c.Havoc(post, comp)
				}
			}
			post.ghostWild = append(post.ghostWild, m[:len(m)-1])
		case strings.HasPrefix(m, "$"):
			e.declGhost(m)
			c.Havoc(post, m)
		case strings.HasPrefix(m, "elems(") && strings.HasSuffix(m, ")"):
			inner := m[6 : len(m)-1]
			ex, err := ParseSpecExpr(inner)
			if err != nil {
				c.Unsupported("modifies %s: %v", m, err)
				continue
			}
			tv := env.eval(ex)
			sl, ok := tv.Ty.Underlying().(*types.Slice)
			if !ok {
				c.Unsupported("modifies %s: not a slice", m)
				continue
			}
			comp := e.elemComp(sl.Elem())
			h := c.Get(post, comp)
			arr := "(s.arr " + tv.T + ")"
			// only the elements inside the slice window may change
			na := c.Fresh(comp+"@hvarr", fmt.Sprintf("(Array (_ BitVec 64) %s)", c.Sort(sl.Elem())))
			c.Assert(fmt.Sprintf("(forall ((i (_ BitVec 64))) (! (=> (not (and (bvsle (s.off %s) i) (bvslt i (bvadd (s.off %s) (s.len %s))))) (= (select %s i) (select (select %s %s) i))) :pattern ((select %s i))))", tv.T, tv.T, tv.T, na, h, arr, na))
			c.Set(post, comp, sto(h, arr, na))
		case strings.HasPrefix(m, "arrays(") && strings.HasSuffix(m, ")"):
			t := env.lookupType(m[7 : len(m)-1])
			if t == nil {
				c.Unsupported("modifies %s: unknown type", m)
				continue
			}
			e.havocComp(post, e.elemComp(t))
		case strings.HasPrefix(m, "fields(") && strings.HasSuffix(m, ")"):
			// fields(p): every field of the one object p points to
			ex, err := ParseSpecExpr(m[7 : len(m)-1])
			if err != nil {
				c.Unsupported("modifies %s: %v", m, err)
				continue
			}
			tv := env.eval(ex)
			pt, ok := tv.Ty.Underlying().(*types.Pointer)
			if !ok || !isStruct(pt.Elem()) {
				c.Unsupported("modifies %s: not a pointer to a struct", m)
				continue
			}
			stt := pt.Elem().Underlying().(*types.Struct)
			for i := 0; i < stt.NumFields(); i++ {
				ft := stt.Field(i).Type()
				a := &Addr{Kind: "field", Comp: e.declField(pt.Elem(), i), Base: tv.T, Typ: ft, Root: ft}
				nv := c.Fresh("hv.field", c.Sort(ft))
				c.Assert(e.typeInv(ft, nv))
				e.noteVal(ft, nv)
				e.storeAddr(post, a, nv)
			}
		case strings.HasPrefix(m, "implsof(") && strings.HasSuffix(m, ")"):
			for _, t := range e.implsOf(env, m[8:len(m)-1]) {
				stt := t.Underlying().(*types.Struct)
				for i := 0; i < stt.NumFields(); i++ {
					e.havocComp(post, e.declField(t, i))
				}
			}
		case strings.HasPrefix(m, "maps(") && strings.HasSuffix(m, ")"):
			// maps(map[K]V): every map of that type
			ex, err := ParseSpecExpr(m[5 : len(m)-1])
			var mt *types.Map
			if err == nil {
				if t := env.typeExpr(ex); t != nil {
					mt, _ = t.Underlying().(*types.Map)
				}
			}
			if mt == nil {
				c.Unsupported("modifies %s: not a map type", m)
				continue
			}
			dom, val := e.mapComps(mt)
			e.havocComp(post, dom)
			e.havocComp(post, val)
		case strings.HasPrefix(m, "mapof(") && strings.HasSuffix(m, ")"):
			// mapof(x.m): the content of that one map
			ex, err := ParseSpecExpr(m[6 : len(m)-1])
			if err != nil {
				c.Unsupported("modifies %s: %v", m, err)
				continue
			}
			tv := env.eval(ex)
			mt, ok := tv.Ty.Underlying().(*types.Map)
			if !ok {
				c.Unsupported("modifies %s: not a map", m)
				continue
			}
			dom, val := e.mapComps(mt)
			d := c.Get(post, dom)
			c.Set(post, dom, sto(d, tv.T, c.Fresh("hv.dom", fmt.Sprintf("(Array %s Bool)", c.Sort(mt.Key())))))
			v := c.Get(post, val)
			nvv := c.Fresh("hv.val", fmt.Sprintf("(Array %s %s)", c.Sort(mt.Key()), c.Sort(mt.Elem())))
			switch mt.Elem().Underlying().(type) {
			case *types.Pointer, *types.Map, *types.Chan:
				c.Assert(fmt.Sprintf("(forall ((k %s)) (! (<= (select %s k) %s) :pattern ((select %s k))))", c.Sort(mt.Key()), nvv, e.top(post), nvv))
			}
			c.Set(post, val, sto(v, tv.T, nvv))
		case strings.HasPrefix(m, "type:"):
			// type:T.f  -> whole field heap
			parts := strings.SplitN(m[5:], ".", 2)
			t := env.lookupType(parts[0])
			if t == nil || !isStruct(t) {
				c.Unsupported("modifies %s: unknown struct", m)
				continue
			}
			stt := t.Underlying().(*types.Struct)
			for i := 0; i < stt.NumFields(); i++ {
				if len(parts) == 1 || stt.Field(i).Name() == parts[1] {
					e.havocComp(post, e.declField(t, i))
				}
			}
		default:
			// an lvalue expression: x.f  (one location)
			ex, err := ParseSpecExpr(m)
			if err != nil {
				c.Unsupported("modifies %s: %v", m, err)
				continue
			}
			a := env.evalAddr(ex)
			if a == nil {
				c.Unsupported("modifies %s: not an lvalue", m)
				continue
			}
			nv := c.Fresh("hv."+sanitize(m), c.Sort(a.Typ))
			c.Assert(e.typeInv(a.Typ, nv))
			e.noteVal(a.Typ, nv)
			e.storeAddr(post, a, nv)
		}
	}
}

func (c *Ctx) compSortOr(comp, def string) string {
	if s, ok := c.compSort[comp]; ok {
		return s
	}
	return def
}

// havocAll: every heap component (not ghost '$' state, not local cells) gets a
// fresh value; components first used later resolve to the new epoch.
func (e *Eval) havocAll(st *State) {
	c := e.c
	if _, ok := st.m["$top"]; !ok {
		e.top(st)
	}
	for comp := range c.compSort {
		if strings.HasPrefix(comp, "$") || strings.HasPrefix(comp, "L.") {
			continue
		}
		e.havocComp(st, comp)
	}
	c.nfresh++
	st.epoch = c.nfresh
}

// applyWrapper: higher-order contract "applies ops, calls fn exactly once,
// undoes ops (also on panic), returns fn's result".
func (e *Eval) applyWrapper(fr *Frame, k *Contract, fn *ssa.Function, pkg *ssa.Package, pnames []string, ptypes []types.Type, args []Val, st *State, cur, site string) Outcome {
	c := e.c
	e.callLog = append(e.callLog, contractKey(k.Kind, k.Pkg, k.Name))
	env := e.newEnv(pkg, st, st)
	var fnArg Val
	for i, n := range pnames {
		if i < len(args) {
			env.bind(n, args[i], ptypes[i])
			if n == k.Wrapper.Param {
				fnArg = args[i]
			}
		}
	}
	for _, cl := range k.Requires {
		if ex, err := cl.Parse(); err == nil {
			e.oblige(fmt.Sprintf("requires@%s/%s", site, clauseLabel(cl, k.Requires)), "requires@call", cl.Props, cur, env.evalGoal(ex), cl.Text, cl.Where)
			c.Assert(implies(cur, env.evalBool(ex)))
		}
	}
	// ops: resolve mutex ids in the pre state
	type op struct{ kind, mu string }
	var ops []op
	for _, o := range k.Wrapper.Ops {
		op1, mu, ok := e.parseLockOp(env, o)
		if !ok {
			c.Unsupported("wrapper op %q", o)
			continue
		}
		ops = append(ops, op{op1, mu})
	}
	e.declHeld()
	heldBefore := c.Get(st, "$held")
	for _, o := range ops {
		e.lockEffect(st, o.kind, o.mu)
	}
	during := c.Get(st, "$held")
	var oc Outcome
	switch {
	case fnArg.Clo != nil:
		oc = e.inline(fr, fnArg.Clo.Fn, nil, fnArg.Clo.Binds, st, cur)
	case fnArg.Fn != nil:
		oc = e.static(fr, nil, fnArg.Fn, nil, st, cur, site+".fn")
	default:
		c.Unsupported("wrapper %s called with opaque function value", k.Name)
		return Outcome{NormalCond: cur, St: st, Results: e.resultHavoc(site, fn.Signature, cur), PanicCond: "false", PanicSt: st}
	}
	// the callback must leave the lock state as it found it (this is what the
	// wrapper's own proof assumes about fn)
	props := []string{"C15", "C16"}
	e.oblige(fmt.Sprintf("callback@%s/locks-balanced", site), "callback", props, and(cur, oc.NormalCond), eq(c.Get(oc.St, "$held"), during), "callback leaves ghost lock state unchanged", k.Where)
	if oc.PanicCond != "false" {
		e.oblige(fmt.Sprintf("callback@%s/locks-balanced-on-panic", site), "callback", props, oc.PanicCond, eq(c.Get(oc.PanicSt, "$held"), during), "callback leaves ghost lock state unchanged when panicking", k.Where)
		c.Set(oc.PanicSt, "$held", heldBefore)
	}
	c.Set(oc.St, "$held", heldBefore)
	return oc
}

func (e *Eval) declHeld() { e.c.DeclComp("$held", "(Array MuId Int)") }

func (e *Eval) parseLockOp(env *Env, s string) (string, string, bool) {
	op := strings.IndexByte(s, '(')
	if op < 0 || !strings.HasSuffix(s, ")") {
		return "", "", false
	}
	kind := strings.TrimSpace(s[:op])
	ex, err := ParseSpecExpr(s[op+1 : len(s)-1])
	if err != nil {
		return "", "", false
	}
	a := env.evalAddr(ex)
	if a == nil {
		return "", "", false
	}
	return kind, e.muId(a), true
}

func (e *Eval) muId(a *Addr) string {
	key := a.Comp
	for _, ps := range a.Path {
		key += fmt.Sprintf(".%d", ps.Idx)
	}
	tag, ok := e.muTags[key]
	if !ok {
		tag = len(e.muTags) + 1
		e.muTags[key] = tag
	}
	base := a.Base
	if base == "" {
		base = "0"
	}
	return fmt.Sprintf("(mk-mu %d %s)", tag, base)
}

func (e *Eval) lockEffect(st *State, kind, mu string) {
	c := e.c
	h := c.Get(st, "$held")
	switch kind {
	case "rlock":
		c.Set(st, "$held", sto(h, mu, "(+ "+sel(h, mu)+" 1)"))
	case "runlock":
		c.Set(st, "$held", sto(h, mu, "(- "+sel(h, mu)+" 1)"))
	case "lock":
		c.Set(st, "$held", sto(h, mu, "(- 1)"))
	case "unlock":
		c.Set(st, "$held", sto(h, mu, "0"))
	}
}

// callParamFn: a call through a function-typed parameter of the function
// under verification.
func (e *Eval) callParamFn(fr *Frame, cc *ssa.CallCommon, pname string, args []Val, st *State, cur, site string) Outcome {
	c := e.c
	sig := cc.Signature()
	// wrapper parameter of the root contract
	if e.rootC != nil && e.rootC.Wrapper != nil && e.rootC.Wrapper.Param == pname && fr == e.root {
		e.declHeld()
		// the during-state must be established
		env := e.newEnv(e.rootPkg, e.entry, e.entry)
		e.bindParams(env, e.root)
		want := NewState()
		want.m["$held"] = c.Get(e.entry, "$held")
		for _, o := range e.rootC.Wrapper.Ops {
			kind, mu, ok := e.parseLockOp(env, o)
			if !ok {
				c.Unsupported("wrapper op %q", o)
				continue
			}
			e.lockEffect(want, kind, mu)
		}
		e.oblige("wrapper/during-state@"+site, "wrapper", []string{"C07", "C15", "C16"}, cur, eq(c.Get(st, "$held"), c.Get(want, "$held")), "lock state at the callback equals entry state + "+strings.Join(e.rootC.Wrapper.Ops, "; "), e.rootC.Where)
		e.ghostCount(st, "$fncalls")
		held := c.Get(st, "$held")
		post := st.Clone()
		e.curSt = post
		e.bumpTop(post)
		e.havocAll(post)
		c.Set(post, "$held", held) // callback leaves the lock state unchanged (checked at call sites)
		res := e.resultHavoc(site, sig, cur)
		c.DeclComp("$fnresult", c.Sort(sig.Results().At(0).Type()))
		c.Set(post, "$fnresult", res[0].T)
		pk := c.Fresh(site+".panics", "Bool")
		pst := post.Clone()
		return Outcome{NormalCond: c.Define(site+".nc", "Bool", and(cur, not(pk))), St: post, Results: res, PanicCond: c.Define(site+".pc", "Bool", and(cur, pk)), PanicSt: pst}
	}
	// function parameter with its own contract block: "fparam <func>.<param>"
	key := "fparam:" + funcKey(e.root.fn) + "." + pname
	if k, ok := e.p.cs.Contracts[key]; ok {
		var pnames []string
		var ptypes []types.Type
		for i := 0; i < sig.Params().Len(); i++ {
			n := fmt.Sprintf("arg%d", i)
			if i < len(k.Params) {
				n = k.Params[i]
			}
			pnames = append(pnames, n)
			ptypes = append(ptypes, sig.Params().At(i).Type())
		}
		e.ghostCount(st, "$c."+pname)
		return e.applyContract(fr, k, e.root.fn.Pkg, pnames, ptypes, k.Results, sig, args, st, cur, site)
	}
	c.Unsupported("call through function parameter %s without contract in %s", pname, fr.fn)
	return Outcome{NormalCond: cur, St: st, Results: e.resultHavoc(site, sig, cur), PanicCond: "false", PanicSt: st}
}

// atClauses: call-site obligations declared in the root contract.
func (e *Eval) atClauses(fr *Frame, cc *ssa.CallCommon, name, site, kind string, args []Val, results []Val, st, pre *State, cur string) {
	if e.rootC == nil || cc == nil {
		return
	}
	for _, at := range e.rootC.At {
		if at.Kind != kind || !calleeMatches(at.Callee, name) {
			continue
		}
		e.atMatched[at] = true
		ex, err := at.Clause.Parse()
		if err != nil {
			e.c.Unsupported("%v", err)
			continue
		}
		env := e.newEnv(e.rootPkg, st, e.entry)
		e.bindParams(env, e.root)
		e.bindCells(env, e.root)
		sig := cc.Signature()
		off := 0
		if cc.IsInvoke() {
			env.bind("recv", args[0], cc.Value.Type())
			off = 1
		} else if sig.Recv() != nil && len(args) > 0 {
			env.bind("recv", args[0], sig.Recv().Type())
			off = 1
		}
		for i := 0; i < sig.Params().Len() && off+i < len(args); i++ {
			n := sig.Params().At(i).Name()
			if n != "" && n != "_" {
				env.bindIfAbsent("p_"+n, args[off+i], sig.Params().At(i).Type())
			}
			env.bind(fmt.Sprintf("arg%d", i), args[off+i], sig.Params().At(i).Type())
		}
		for i := range results {
			env.bind(fmt.Sprintf("ret%d", i), results[i], sig.Results().At(i).Type())
		}
		var g string
		if kind == "assume" || kind == "presume" {
			g = env.evalBool(ex)
		} else {
			g = env.evalGoal(ex)
		}
		if kind == "assume" || kind == "presume" {
			e.c.Assert(implies(cur, g))
			e.c.Assume("assumed at call of " + name + " in " + e.rootKey + ": " + at.Clause.Text)
			continue
		}
		lbl := at.Clause.Label
		if lbl == "" {
			lbl = "at"
		}
		e.oblige(fmt.Sprintf("callsite@%s/%s", site, lbl), "callsite", at.Clause.Props, cur, g, at.Clause.Text, at.Clause.Where)
	}
}

// atClosure: `at closure:<fn> requires ...` clauses of the function under
// verification are checked where the closure is created, with the captured
// variables bound by their source names.
func (e *Eval) atClosure(fr *Frame, x *ssa.MakeClosure, binds []Val, st *State, cur string) {
	if e.rootC == nil || fr != e.root {
		return
	}
	fn := x.Fn.(*ssa.Function)
	name := "closure:" + relName(fn)
	for _, at := range e.rootC.At {
		if at.Kind != "requires" || !calleeMatches(at.Callee, name) {
			continue
		}
		e.atMatched[at] = true
		ex, err := at.Clause.Parse()
		if err != nil {
			e.c.Unsupported("%v", err)
			continue
		}
		env := e.newEnv(e.rootPkg, st, e.entry)
		e.bindParams(env, e.root)
		e.bindCells(env, e.root)
		for i, fv := range fn.FreeVars {
			if i < len(binds) {
				env.bind(fv.Name(), binds[i], fv.Type())
			}
		}
		g := env.evalGoal(ex)
		lbl := at.Clause.Label
		if lbl == "" {
			lbl = "at"
		}
		e.oblige(fmt.Sprintf("closure@%s/%s", e.site(relName(fn)), lbl), "callsite", at.Clause.Props, cur, g, at.Clause.Text, at.Clause.Where)
	}
}

// atGhost: `at <callee> ghost <directive>` clauses of the function under
// verification: ghost bookkeeping done just before a call (e.g. a dying
// child's link reference is taken back before it is dropped).
func (e *Eval) atGhost(fr *Frame, cc *ssa.CallCommon, name, site string, args []Val, st *State, cur string) {
	if e.rootC == nil || cc == nil || fr != e.root {
		return
	}
	for _, at := range e.rootC.At {
		if at.Kind != "ghost" || !calleeMatches(at.Callee, name) {
			continue
		}
		e.atMatched[at] = true
		env := e.newEnv(e.rootPkg, st, e.entry)
		e.bindParams(env, e.root)
		e.bindCells(env, e.root)
		sig := cc.Signature()
		off := 0
		if cc.IsInvoke() {
			env.bind("recv", args[0], cc.Value.Type())
			off = 1
		} else if sig.Recv() != nil && len(args) > 0 {
			env.bind("recv", args[0], sig.Recv().Type())
			off = 1
		}
		for i := 0; i < sig.Params().Len() && off+i < len(args); i++ {
			env.bind(fmt.Sprintf("arg%d", i), args[off+i], sig.Params().At(i).Type())
		}
		if strings.HasPrefix(at.Clause.Text, "interfere[") {
			// interfere[Cxx,..] <frame> preserving <pred>: before this call
			// (a lock acquisition) other requests may have changed <frame>,
			// leaving <pred> true. Only for the listed properties: the
			// sequential postconditions of the other properties are stated
			// for an invocation running alone.
			t := at.Clause.Text[len("interfere["):]
			ci := strings.Index(t, "]")
			if ci < 0 {
				e.c.Unsupported("bad interfere directive: %s", at.Clause.Text)
				continue
			}
			on := false
			for _, pp := range strings.Split(t[:ci], ",") {
				if strings.TrimSpace(pp) == currentProp {
					on = true
				}
			}
			if !on {
				continue
			}
			body := strings.TrimSpace(t[ci+1:])
			frame, pred := body, ""
			if pi := strings.Index(body, " preserving "); pi >= 0 {
				frame, pred = strings.TrimSpace(body[:pi]), strings.TrimSpace(body[pi+len(" preserving "):])
			}
			e.havocFrame(&Contract{Modifies: splitTop(frame, ','), HasModifies: true}, env, st, st)
			if pred != "" {
				ex, err := ParseSpecExpr(pred)
				if err != nil {
					e.c.Unsupported("%v", err)
					continue
				}
				env.st = st
				e.c.Assert(implies(cur, env.evalBool(ex)))
			}
			e.c.Assume("interference before " + name + " in " + e.rootKey + ": " + body)
			continue
		}
		e.applyGhost(&Contract{Ghost: []string{at.Clause.Text}}, env, st, st, cur, site)
		e.c.Assume("ghost step before " + name + " in " + e.rootKey + ": " + at.Clause.Text)
	}
}

// atChanSend: `at chan-send requires ...` clauses of the function under
// verification are checked at every channel send (plain or as a select case);
// `sent` is the value being sent.
func (e *Eval) atChanSend(fr *Frame, sent Val, sentT types.Type, st *State, cur string, pos token.Pos) {
	if e.rootC == nil || fr != e.root {
		return
	}
	for _, at := range e.rootC.At {
		if at.Kind != "requires" || at.Callee != "chan-send" {
			continue
		}
		e.atMatched[at] = true
		ex, err := at.Clause.Parse()
		if err != nil {
			e.c.Unsupported("%v", err)
			continue
		}
		env := e.newEnv(e.rootPkg, st, e.entry)
		e.bindParams(env, e.root)
		e.bindCells(env, e.root)
		env.bind("sent", sent, sentT)
		lbl := at.Clause.Label
		if lbl == "" {
			lbl = "at"
		}
		e.oblige(fmt.Sprintf("callsite@%s/%s", e.site("chan-send"), lbl), "callsite", at.Clause.Props, cur, env.evalGoal(ex), at.Clause.Text, e.p.prog.Fset.Position(pos).String())
	}
}

func calleeMatches(pat, name string) bool {
	if pat == name {
		return true
	}
	if strings.HasSuffix(pat, "*") && strings.HasPrefix(name, pat[:len(pat)-1]) {
		return true
	}
	return false
}

// applyGhost interprets `ghost` directives of a contract at a call site.
//   ghost inc $name          ghost counter += 1
func (e *Eval) applyGhost(k *Contract, env *Env, post, pre *State, cur, site string) {
	for _, g := range k.Ghost {
		f := strings.Fields(g)
		if len(f) == 2 && f[0] == "inc" {
			e.ghostCount(post, f[1])
			continue
		}
		// own <file expr> = <int expr>    ownership state of a File
		if len(f) >= 4 && f[0] == "own" {
			rest := strings.TrimSpace(g[3:])
			eqi := strings.Index(rest, " = ")
			fx, err1 := ParseSpecExpr(strings.TrimSpace(rest[:eqi]))
			vx, err2 := ParseSpecExpr(strings.TrimSpace(rest[eqi+3:]))
			if err1 == nil && err2 == nil {
				env.st = post
				e.declOwn()
				fv := env.eval(fx)
				vv := env.eval(vx)
				if vv.Ty == nil {
					vv = env.coerce(vv, ghostIntType)
				}
				e.c.Set(post, "$own", sto(e.c.Get(post, "$own"), fv.T, vv.T))
				continue
			}
		}
		// owed <ref expr> += <int>         references held by the invocation
		if len(f) == 4 && f[0] == "owed" && f[2] == "+=" {
			rx, err := ParseSpecExpr(f[1])
			if err == nil {
				env.st = post
				e.declOwed()
				rv := env.eval(rx)
				o := e.c.Get(post, "$owed")
				e.c.Set(post, "$owed", ite(eq(rv.T, "0"), o, sto(o, rv.T, "(+ "+sel(o, rv.T)+" "+f[3]+")")))
				continue
			}
		}
		// gm $name <key expr> = <int expr>   ghost map (Int -> Int) update
		if len(f) >= 5 && f[0] == "gm" {
			rest := strings.TrimSpace(strings.TrimSpace(g[2:])[len(f[1]):])
			eqi := strings.LastIndex(rest, " = ")
			if eqi > 0 {
				kx, err1 := ParseSpecExpr(strings.TrimSpace(rest[:eqi]))
				vx, err2 := ParseSpecExpr(strings.TrimSpace(rest[eqi+3:]))
				if err1 == nil && err2 == nil {
					env.st = post
					comp := "$gm." + strings.TrimPrefix(f[1], "$")
					e.c.DeclComp(comp, "(Array Int Int)")
					kv := env.eval(kx)
					vv := env.eval(vx)
					if vv.Ty == nil {
						vv = env.coerce(vv, ghostIntType)
					}
					e.c.Set(post, comp, sto(e.c.Get(post, comp), kv.T, vv.T))
					continue
				}
			}
		}
		// set $name:type = expr   (expr over the post state and the results)
		if len(f) >= 4 && f[0] == "set" {
			rest := strings.TrimSpace(g[3:])
			eqi := strings.Index(rest, "=")
			lhs := strings.TrimSpace(rest[:eqi])
			parts := strings.SplitN(lhs, ":", 2)
			if len(parts) == 2 {
				ty := env.lookupType(parts[1])
				ex, err := ParseSpecExpr(strings.TrimSpace(rest[eqi+1:]))
				if ty != nil && err == nil {
					env.st = post
					v := env.eval(ex)
					if v.Ty == nil {
						v = env.coerce(v, ty)
					}
					e.c.DeclComp(parts[0], env.sortOf(ty))
					e.c.Set(post, parts[0], v.T)
					continue
				}
			}
		}
		e.c.Unsupported("ghost directive %q", g)
	}
}

// declGhost declares a ghost component named in a modifies clause.
func (e *Eval) declGhost(name string) {
	switch name {
	case "$owed":
		e.declOwed()
	case "$own":
		e.declOwn()
	case "$held":
		e.declHeld()
	case "$closed":
		e.c.DeclComp("$closed", "(Array Int Bool)")
	case "$wr", "$rd":
		e.c.DeclComp(name, "(Array Int BSeq)")
	default:
		if strings.HasPrefix(name, "$gm.") {
			e.c.DeclComp(name, "(Array Int Int)")
			return
		}
		if gv, ok := e.p.cs.GhostVars[name]; ok {
			env := e.newEnv(e.p.pkgs[gv[1]], e.entry, e.entry)
			if t := env.lookupType(gv[0]); t != nil {
				e.c.DeclComp(name, env.sortOf(t))
				return
			}
		}
		e.c.DeclComp(name, e.c.compSortOr(name, "Int"))
	}
}

// implsOf: named struct types of the package whose (pointer) type implements
// the named interface.
func (e *Eval) implsOf(env *Env, iface string) []types.Type {
	it := env.lookupType(iface)
	if it == nil || env.pkg == nil {
		return nil
	}
	ii, ok := it.Underlying().(*types.Interface)
	if !ok {
		return nil
	}
	var out []types.Type
	for _, name := range env.pkg.Pkg.Scope().Names() {
		tn, ok := env.pkg.Pkg.Scope().Lookup(name).(*types.TypeName)
		if !ok || !isStruct(tn.Type()) {
			continue
		}
		if types.Implements(tn.Type(), ii) || types.Implements(types.NewPointer(tn.Type()), ii) {
			out = append(out, tn.Type())
		}
	}
	return out
}

var localCounterRe = regexp.MustCompile(`ncalls\("([^"]*)"\)`)

// mentionsLocalCounters: the clause talks about the callee's own
// per-invocation call counters, which mean nothing in the caller's state.
func mentionsLocalCounters(text string) bool {
	for _, m := range localCounterRe.FindAllStringSubmatch(text, -1) {
		if !ifaceMethodRe.MatchString(m[1]) {
			return true
		}
	}
	return false
}

func mentionsLogical(k *Contract, text string) bool {
	for _, lv := range k.Logical {
		if regexp.MustCompile(`\b` + regexp.QuoteMeta(lv[0]) + `\b`).MatchString(text) {
			return true
		}
	}
	return false
}
