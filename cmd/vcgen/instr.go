package main

import (
	"fmt"
	"go/ast"
	"go/token"
	"go/types"
	"strings"

	"golang.org/x/tools/go/ssa"
)

func (e *Eval) safetyOb(fr *Frame, in ssa.Instruction, kind, cur, goal string) {
	if len(e.safety) == 0 {
		return
	}
	name := fmt.Sprintf("safety#%s", e.site(kind+"@"+shortFn(fr.fn)))
	e.oblige(name, "safety", e.safety, cur, goal, kind, e.p.prog.Fset.Position(in.Pos()).String())
}

// blockingOb: a goroutine that blocks on a channel while holding a mutex
// stalls every other goroutine that needs the mutex (and deadlocks when the
// wake-up needs it): no mutex may be held at a blocking channel operation.
func (e *Eval) blockingOb(fr *Frame, in ssa.Instruction, kind string, st *State, cur string) {
	if len(e.blocking) == 0 {
		return
	}
	e.declHeld()
	sk := e.c.Fresh("sk.blk", "MuId")
	goal := eq(sel(e.c.Get(st, "$held"), sk), "0")
	name := fmt.Sprintf("blocking#%s/no-mutex-held-while-blocking", e.site(kind+"@"+shortFn(fr.fn)))
	e.oblige(name, "blocking", e.blocking, cur, goal, "no mutex held at blocking "+kind, e.p.prog.Fset.Position(in.Pos()).String())
}

func shortFn(fn *ssa.Function) string { return relName(fn) }

// constFunc: the function a function-valued package variable always holds
// (constglobal name = func:F, checked on the IR by ConstGlobalResult).
func (e *Eval) constFunc(g *ssa.Global) *ssa.Function {
	for _, cg := range e.p.cs.ConstGlobals {
		if cg.Name == g.Name() && g.Pkg != nil && cg.Pkg == g.Pkg.Pkg.Name() && strings.HasPrefix(cg.Value, "func:") {
			if f, ok := g.Pkg.Members[strings.TrimPrefix(cg.Value, "func:")].(*ssa.Function); ok {
				e.usedConstGlobals = true
				return f
			}
		}
	}
	return nil
}

// instr executes one instruction; returns the new reach, state and whether
// the block ended here (return / panic).
func (e *Eval) instr(fr *Frame, in ssa.Instruction, st *State, cur string) (string, *State, bool) {
	c := e.c
	e.curSt = st
	switch x := in.(type) {
	case *ssa.DebugRef:
		// source name of a register (used by loop invariants and at-clauses)
		if id, ok := x.Expr.(*ast.Ident); ok && !x.IsAddr {
			if v, ok := fr.vals[x.X]; ok && v.T != "" {
				if fr.names == nil {
					fr.names = map[string]namedVal{}
				}
				fr.names[id.Name] = namedVal{v, x.X.Type()}
			} else if k, ok := x.X.(*ssa.Const); ok {
				if fr.names == nil {
					fr.names = map[string]namedVal{}
				}
				fr.names[id.Name] = namedVal{e.constVal(k), k.Type()}
			}
		}
	case *ssa.Alloc:
		t := x.Type().(*types.Pointer).Elem()
		switch t.Underlying().(type) {
		case *types.Struct:
			r := e.freshRef(fr.prefix + x.Name() + ":" + x.Comment)
			e.storeObj(st, t, r, c.Zero(t))
			fr.vals[x] = Val{T: r}
		case *types.Array:
			r := e.freshRef(fr.prefix + x.Name() + ":arr")
			v := Val{A: &Addr{Kind: "array", Base: r, Typ: t, Root: t}}
			e.store(st, v, t, c.Zero(t))
			fr.vals[x] = v
		default:
			if cellOnly(x) {
				comp := fmt.Sprintf("L.%s%s:%s", fr.prefix, x.Name(), x.Comment)
				c.DeclComp(comp, c.Sort(t))
				a := &Addr{Kind: "cell", Comp: comp, Typ: t, Root: t}
				e.rootStore(st, a, c.Zero(t))
				fr.vals[x] = Val{A: a}
			} else {
				r := e.freshRef(fr.prefix + x.Name() + ":" + x.Comment)
				v := Val{T: r}
				e.store(st, v, t, c.Zero(t))
				fr.vals[x] = v
			}
		}
	case *ssa.Store:
		p := e.val(fr, x.Addr)
		v := e.val(fr, x.Val)
		t := x.Addr.Type().Underlying().(*types.Pointer).Elem()
		if p.A == nil {
			e.nilCheck(fr, in, cur, p)
		}
		if v.T == "" {
			if v.Clo != nil || v.Fn != nil || v.ParamFn != "" {
				// function values stored in memory are opaque
				v = Val{T: c.Fresh("fnval", "Int")}
			} else {
				c.Unsupported("store of structured pointer in %s: %s", fr.fn, in)
				break
			}
		}
		e.store(st, p, t, v.T)
		e.afterStore(fr, st, p, t, cur, in, v.T)
	case *ssa.UnOp:
		v := e.val(fr, x.X)
		switch x.Op {
		case token.MUL:
			t := x.X.Type().Underlying().(*types.Pointer).Elem()
			if v.A == nil {
				e.nilCheck(fr, in, cur, v)
			}
			if g, isG := x.X.(*ssa.Global); isG {
				// a package variable declared `constglobal name = func:F`
				if f := e.constFunc(g); f != nil {
					fr.vals[x] = Val{Fn: f, T: "1"}
					break
				}
			}
			r := c.Define(fr.prefix+x.Name(), c.Sort(t), e.load(st, v, t))
			e.noteVal(t, r)
			switch t.Underlying().(type) {
			case *types.Slice, *types.Struct:
				c.Assert(e.typeInv(t, r)) // values stored in the heap are well-formed
			}
			e.guardCheck(fr, st, v, cur, false)
			if v.A != nil && v.A.Kind == "field" && len(v.A.Path) == 0 {
				if _, isMap := t.Underlying().(*types.Map); isMap {
					e.mapFrom[r] = v.A.Comp
				}
				if gr := e.ruleFor(v.A.Comp); gr != nil && gr.Kind == "ownfield" {
					fresh := false
					for _, a := range e.allocs {
						if a == v.A.Base {
							fresh = true
						}
					}
					if !fresh {
						// I_own: the File of an existing reference is owned by it and not closed
						e.declOwn()
						c.Assert(eq(sel(c.Get(st, "$own"), r), "2"))
					}
				}
			}
			if v.A != nil && v.A.Kind == "field" && len(v.A.Path) == 0 && strings.HasSuffix(v.A.Comp, ".fidRef.file") {
				e.prov[r] = v.A.Base
			}
			fr.vals[x] = Val{T: r}
		case token.NOT:
			fr.vals[x] = Val{T: not(v.T)}
		case token.SUB:
			fr.vals[x] = Val{T: "(bvneg " + v.T + ")"}
		case token.XOR:
			fr.vals[x] = Val{T: "(bvnot " + v.T + ")"}
		case token.ARROW:
			// channel receive: opaque value
			e.blockingOb(fr, in, "chan-recv", st, cur)
			e.ghostEvent(st, "recv", v.T)
			fr.vals[x] = e.havocVal(fr.prefix+x.Name(), x.Type(), cur)
		default:
			c.Unsupported("unop %s", x.Op)
			fr.vals[x] = e.havocVal(fr.prefix+x.Name(), x.Type(), cur)
		}
	case *ssa.BinOp:
		a, b := e.val(fr, x.X), e.val(fr, x.Y)
		t, extra := e.binop(x.Op, a, b, x.X.Type(), x.Y.Type(), x.Type())
		if extra != "" {
			e.safetyOb(fr, in, "div", cur, extra)
		}
		fr.vals[x] = Val{T: c.Define(fr.prefix+x.Name(), c.Sort(x.Type()), t)}
	case *ssa.Convert:
		v := e.val(fr, x.X)
		fs, ts := c.Sort(x.X.Type()), c.Sort(x.Type())
		switch {
		case fs == "Slice" && ts == "GStr":
			// string(bs): a string with the slice's length and bytes
			if sl, ok := x.X.Type().Underlying().(*types.Slice); ok && c.Sort(sl.Elem()) == bvSort(8) {
				r := c.Fresh(fr.prefix+x.Name()+":str", "GStr")
				arrT := sel(c.Get(st, e.elemComp(sl.Elem())), "(s.arr "+v.T+")")
				c.Assert(eq("(gs.len "+r+")", "(s.len "+v.T+")"))
				c.Assert(fmt.Sprintf("(forall ((i (_ BitVec 64))) (! (=> (and (bvsle #x0000000000000000 i) (bvslt i (s.len %s))) (= (gs.at %s i) (select %s (bvadd (s.off %s) i)))) :pattern ((gs.at %s i))))", v.T, r, arrT, v.T, r))
				fr.vals[x] = Val{T: r}
				break
			}
			fr.vals[x] = Val{T: c.Define(fr.prefix+x.Name(), ts, e.convert(v.T, x.X.Type(), x.Type()))}
		case fs == "GStr" && ts == "Slice":
			// []byte(s): a fresh array holding the string's bytes
			if sl, ok := x.Type().Underlying().(*types.Slice); ok && c.Sort(sl.Elem()) == bvSort(8) {
				arr := e.freshRef(fr.prefix + x.Name() + ":bytes")
				comp := e.elemComp(sl.Elem())
				na := c.Fresh(fr.prefix+x.Name()+":elems", "(Array (_ BitVec 64) (_ BitVec 8))")
				c.Assert(fmt.Sprintf("(forall ((i (_ BitVec 64))) (! (=> (and (bvsle #x0000000000000000 i) (bvslt i (gs.len %s))) (= (select %s i) (gs.at %s i))) :pattern ((select %s i))))", v.T, na, v.T, na))
				c.Set(st, comp, sto(c.Get(st, comp), arr, na))
				fr.vals[x] = Val{T: c.Define(fr.prefix+x.Name(), "Slice", fmt.Sprintf("(mk-slice %s #x0000000000000000 (gs.len %s) (gs.len %s))", arr, v.T, v.T))}
				break
			}
			fr.vals[x] = Val{T: c.Define(fr.prefix+x.Name(), ts, e.convert(v.T, x.X.Type(), x.Type()))}
		default:
			fr.vals[x] = Val{T: c.Define(fr.prefix+x.Name(), ts, e.convert(v.T, x.X.Type(), x.Type()))}
		}
	case *ssa.ChangeType:
		fr.vals[x] = e.val(fr, x.X)
	case *ssa.ChangeInterface:
		fr.vals[x] = e.val(fr, x.X)
	case *ssa.MakeInterface:
		v := e.val(fr, x.X)
		if v.T == "" {
			// an interior pointer boxed into an interface (logging, pools): opaque
			fr.vals[x] = Val{T: c.Define(fr.prefix+x.Name(), "Iface", fmt.Sprintf("(mk-iface %s %s)", c.TypeTag(x.X.Type()), c.Fresh(fr.prefix+x.Name()+":ptr", "Int")))}
			break
		}
		fr.vals[x] = Val{T: c.Define(fr.prefix+x.Name(), "Iface", fmt.Sprintf("(mk-iface %s %s)", c.TypeTag(x.X.Type()), c.Box(x.X.Type(), v.T)))}
	case *ssa.TypeAssert:
		v := e.val(fr, x.X)
		var ok, res string
		if types.IsInterface(x.AssertedType) {
			ok = e.implPred(x.AssertedType, "(i.type "+v.T+")")
			res = v.T
		} else {
			ok = eq("(i.type "+v.T+")", c.TypeTag(x.AssertedType))
			res = c.Unbox(x.AssertedType, "(i.val "+v.T+")")
		}
		okd := c.Define(fr.prefix+x.Name()+".ok", "Bool", ok)
		if x.CommaOk {
			rv := c.Define(fr.prefix+x.Name()+".v", c.Sort(x.AssertedType), ite(okd, res, c.Zero(x.AssertedType)))
			e.noteVal(x.AssertedType, rv)
			fr.vals[x] = Val{Tup: []Val{{T: rv}, {T: okd}}}
		} else {
			// failing assertion panics
			e.safetyOb(fr, in, "typeassert", cur, okd)
			e.rawPanic(fr, st, and(cur, not(okd)))
			cur = c.Define(fr.prefix+"cur", "Bool", and(cur, okd))
			rv := c.Define(fr.prefix+x.Name(), c.Sort(x.AssertedType), res)
			e.noteVal(x.AssertedType, rv)
			fr.vals[x] = Val{T: rv}
		}
	case *ssa.Extract:
		v := e.val(fr, x.Tuple)
		if x.Index < len(v.Tup) {
			fr.vals[x] = v.Tup[x.Index]
		} else {
			c.Unsupported("extract from non-tuple in %s", fr.fn)
			fr.vals[x] = e.havocVal(fr.prefix+x.Name(), x.Type(), cur)
		}
	case *ssa.Field:
		v := e.val(fr, x.X)
		fr.vals[x] = Val{T: c.Define(fr.prefix+x.Name(), c.Sort(x.Type()), c.StructSel(x.X.Type(), x.Field, v.T))}
		e.noteVal(x.Type(), fr.vals[x].T)
	case *ssa.FieldAddr:
		p := e.val(fr, x.X)
		stt := x.X.Type().Underlying().(*types.Pointer).Elem()
		ft := stt.Underlying().(*types.Struct).Field(x.Field).Type()
		if p.A != nil {
			na := *p.A
			na.Path = append(append([]pathStep{}, p.A.Path...), pathStep{St: stt, Idx: x.Field})
			na.Typ = ft
			fr.vals[x] = Val{A: &na}
		} else {
			e.nilCheck(fr, in, cur, p)
			fr.vals[x] = Val{A: &Addr{Kind: "field", Comp: e.declField(stt, x.Field), Base: p.T, Typ: ft, Root: ft}}
		}
	case *ssa.IndexAddr:
		p := e.val(fr, x.X)
		idx := e.val(fr, x.Index)
		i64 := e.convert(idx.T, x.Index.Type(), types.Typ[types.Int])
		switch u := x.X.Type().Underlying().(type) {
		case *types.Slice:
			e.safetyOb(fr, in, "index", cur, and("(bvsle #x0000000000000000 "+i64+")", "(bvslt "+i64+" (s.len "+p.T+"))"))
			fr.vals[x] = Val{A: &Addr{Kind: "elem", Comp: e.elemComp(u.Elem()), Base: "(s.arr " + p.T + ")", Idx: "(bvadd (s.off " + p.T + ") " + i64 + ")", Typ: u.Elem(), Root: u.Elem()}}
		case *types.Pointer:
			at := u.Elem().Underlying().(*types.Array)
			e.safetyOb(fr, in, "index", cur, and("(bvsle #x0000000000000000 "+i64+")", "(bvslt "+i64+" "+bvLit(64, uint64(at.Len()))+")"))
			if p.A != nil && p.A.Kind == "array" {
				fr.vals[x] = Val{A: &Addr{Kind: "elem", Comp: e.elemComp(at.Elem()), Base: p.A.Base, Idx: i64, Typ: at.Elem(), Root: at.Elem()}}
			} else if p.A != nil && p.A.Kind == "field" && len(p.A.Path) == 0 {
				// an array-typed struct field: its elements live in a
				// component of their own, keyed by the object and the index
				comp := "FA." + strings.TrimPrefix(p.A.Comp, "H.")
				c.DeclComp(comp, fmt.Sprintf("(Array Int (Array (_ BitVec 64) %s))", c.Sort(at.Elem())))
				fr.vals[x] = Val{A: &Addr{Kind: "elem", Comp: comp, Base: p.A.Base, Idx: i64, Typ: at.Elem(), Root: at.Elem()}}
			} else {
				c.Unsupported("IndexAddr through array pointer in %s", fr.fn)
				fr.vals[x] = Val{A: &Addr{Kind: "elem", Comp: e.elemComp(at.Elem()), Base: c.Fresh("arr", "Int"), Idx: i64, Typ: at.Elem(), Root: at.Elem()}}
			}
		default:
			c.Unsupported("IndexAddr on %s", x.X.Type())
		}
	case *ssa.Index:
		v := e.val(fr, x.X)
		idx := e.val(fr, x.Index)
		i64 := e.convert(idx.T, x.Index.Type(), types.Typ[types.Int])
		switch x.X.Type().Underlying().(type) {
		case *types.Array:
			fr.vals[x] = Val{T: c.Define(fr.prefix+x.Name(), c.Sort(x.Type()), sel(v.T, i64))}
		case *types.Basic: // string
			e.safetyOb(fr, in, "strindex", cur, and("(bvsle #x0000000000000000 "+i64+")", "(bvslt "+i64+" (gs.len "+v.T+"))"))
			fr.vals[x] = Val{T: c.Define(fr.prefix+x.Name(), bvSort(8), "(gs.at "+v.T+" "+i64+")")}
		default:
			c.Unsupported("Index on %s", x.X.Type())
			fr.vals[x] = e.havocVal(fr.prefix+x.Name(), x.Type(), cur)
		}
	case *ssa.Lookup:
		v := e.val(fr, x.X)
		k := e.val(fr, x.Index)
		switch u := x.X.Type().Underlying().(type) {
		case *types.Map:
			dom, val := e.mapComps(u)
			has := sel(sel(c.Get(st, dom), v.T), k.T)
			rv := c.Define(fr.prefix+x.Name(), c.Sort(u.Elem()), ite(has, sel(sel(c.Get(st, val), v.T), k.T), c.Zero(u.Elem())))
			e.noteVal(u.Elem(), rv)
			if x.CommaOk {
				fr.vals[x] = Val{Tup: []Val{{T: rv}, {T: c.Define(fr.prefix+x.Name()+".ok", "Bool", has)}}}
			} else {
				fr.vals[x] = Val{T: rv}
			}
		case *types.Basic: // string index
			i64 := e.convert(k.T, x.Index.Type(), types.Typ[types.Int])
			e.safetyOb(fr, in, "strindex", cur, and("(bvsle #x0000000000000000 "+i64+")", "(bvslt "+i64+" (gs.len "+v.T+"))"))
			fr.vals[x] = Val{T: c.Define(fr.prefix+x.Name(), bvSort(8), "(gs.at "+v.T+" "+i64+")")}
		default:
			c.Unsupported("Lookup on %s", x.X.Type())
			fr.vals[x] = e.havocVal(fr.prefix+x.Name(), x.Type(), cur)
		}
	case *ssa.MapUpdate:
		m := e.val(fr, x.Map)
		k := e.val(fr, x.Key)
		v := e.val(fr, x.Value)
		u := x.Map.Type().Underlying().(*types.Map)
		dom, val := e.mapComps(u)
		e.safetyOb(fr, in, "nilmap", cur, "(not (= "+m.T+" 0))")
		if v.T == "" {
			c.Unsupported("map update with structured value in %s", fr.fn)
			break
		}
		pre := st.Clone()
		d := c.Get(st, dom)
		c.Set(st, dom, sto(d, m.T, sto(sel(d, m.T), k.T, "true")))
		vv := c.Get(st, val)
		c.Set(st, val, sto(vv, m.T, sto(sel(vv, m.T), k.T, v.T)))
		e.tableUpdate(st, u, m.T, k.T, v.T, pre)
		e.afterMapUpdate(fr, st, u, m.T, cur, in)
	case *ssa.MakeMap:
		u := x.Type().Underlying().(*types.Map)
		dom, _ := e.mapComps(u)
		r := e.freshRef(fr.prefix + x.Name() + ":map")
		d := c.Get(st, dom)
		c.Set(st, dom, sto(d, r, fmt.Sprintf("((as const (Array %s Bool)) false)", c.Sort(u.Key()))))
		fr.vals[x] = Val{T: r}
	case *ssa.MakeChan:
		fr.vals[x] = Val{T: e.freshRef(fr.prefix + x.Name() + ":chan")}
	case *ssa.MakeSlice:
		ln := e.val(fr, x.Len)
		cp := e.val(fr, x.Cap)
		l64 := e.convert(ln.T, x.Len.Type(), types.Typ[types.Int])
		c64 := e.convert(cp.T, x.Cap.Type(), types.Typ[types.Int])
		elem := x.Type().Underlying().(*types.Slice).Elem()
		e.safetyOb(fr, in, "makeslice", cur, and("(bvsle #x0000000000000000 "+l64+")", "(bvsle "+l64+" "+c64+")", "(bvslt "+c64+" #x0001000000000000)"))
		e.allocOb(fr, in, cur, l64, elem)
		r := e.freshRef(fr.prefix + x.Name() + ":mk")
		comp := e.elemComp(elem)
		c.Set(st, comp, sto(c.Get(st, comp), r, fmt.Sprintf("((as const (Array (_ BitVec 64) %s)) %s)", c.Sort(elem), c.Zero(elem))))
		fr.vals[x] = Val{T: c.Define(fr.prefix+x.Name(), "Slice", fmt.Sprintf("(mk-slice %s #x0000000000000000 %s %s)", r, l64, c64))}
	case *ssa.Slice:
		fr.vals[x] = e.sliceOp(fr, x, st, cur)
	case *ssa.MakeClosure:
		var binds []Val
		for _, b := range x.Bindings {
			binds = append(binds, e.val(fr, b))
		}
		fr.vals[x] = Val{Clo: &Closure{Fn: x.Fn.(*ssa.Function), Binds: binds}}
		e.atClosure(fr, x, binds, st, cur)
	case *ssa.Phi:
		c.Unsupported("phi not at block start in %s", fr.fn)
	case *ssa.Call:
		args, fnval := e.callArgs(fr, &x.Call)
		oc := e.doCall(fr, &x.Call, args, fnval, st, cur, "", false)
		if oc.PanicCond != "false" {
			e.rawPanic(fr, oc.PanicSt, oc.PanicCond)
		}
		st = oc.St
		if oc.NormalCond != cur {
			cur = c.Define(fr.prefix+"cur", "Bool", and(cur, oc.NormalCond))
		}
		switch len(oc.Results) {
		case 0:
			fr.vals[x] = Val{}
		case 1:
			fr.vals[x] = oc.Results[0]
		default:
			fr.vals[x] = Val{Tup: oc.Results}
		}
	case *ssa.Defer:
		args, fnval := e.callArgs(fr, &x.Call)
		fr.defers = append(fr.defers, &deferred{guard: cur, call: &x.Call, args: args, fnval: fnval, site: ""})
	case *ssa.RunDefers:
		cur, st = e.runDefers(fr, st, cur, len(fr.defers)-1, false)
	case *ssa.Go:
		e.ghostCount(st, "$spawned")
		c.Assume("go statement: spawned goroutine body is not interleaved (verified as its own function where under contract)")
	case *ssa.Return:
		var rs []Val
		for _, r := range x.Results {
			rs = append(rs, e.val(fr, r))
		}
		fr.normals = append(fr.normals, exitRec{cond: cur, st: st, results: rs})
		return cur, st, true
	case *ssa.Panic:
		if len(e.safety) > 0 {
			e.safetyOb(fr, in, "explicit-panic", cur, "false")
		}
		e.rawPanic(fr, st, cur)
		return "false", st, true
	case *ssa.If, *ssa.Jump:
		// edges handled by caller
	case *ssa.Send:
		ch := e.val(fr, x.Chan)
		e.atChanSend(fr, e.val(fr, x.X), x.X.Type(), st, cur, x.Pos())
		e.blockingOb(fr, in, "chan-send", st, cur)
		e.ghostEvent(st, "send", ch.T)
	case *ssa.Select:
		if x.Blocking {
			e.blockingOb(fr, in, "select", st, cur)
		}
		for _, s := range x.States {
			ch := e.val(fr, s.Chan)
			_ = ch
			if s.Dir == types.SendOnly && s.Send != nil {
				e.atChanSend(fr, e.val(fr, s.Send), s.Send.Type(), st, cur, x.Pos())
			}
		}
		fr.vals[x] = e.havocVal(fr.prefix+x.Name(), x.Type(), cur)
		c.Assume("select: chosen case and received values are arbitrary; blocking is not modelled")
	case *ssa.Range:
		v := e.val(fr, x.X)
		fr.vals[x] = Val{T: v.T}
	case *ssa.Next:
		it := e.val(fr, x.Iter)
		rng := x.Iter.(*ssa.Range)
		okv := c.Fresh(fr.prefix+x.Name()+".ok", "Bool")
		switch u := rng.X.Type().Underlying().(type) {
		case *types.Map:
			dom, val := e.mapComps(u)
			k := e.havocVal(fr.prefix+x.Name()+".k", u.Key(), cur)
			if _, isPtr := u.Key().Underlying().(*types.Pointer); isPtr && k.T != "" {
				// an object found by iterating a map of references (the path
				// tree's reverse index) is not known to be alive
				if e.iterRefs == nil {
					e.iterRefs = map[string]bool{}
				}
				e.iterRefs[k.T] = true
			}
			vv := c.Define(fr.prefix+x.Name()+".v", c.Sort(u.Elem()), sel(sel(c.Get(st, val), it.T), k.T))
			e.noteVal(u.Elem(), vv)
			c.Assert(implies(okv, sel(sel(c.Get(st, dom), it.T), k.T)))
			fr.vals[x] = Val{Tup: []Val{{T: okv}, k, {T: vv}}}
			c.Assume("range over map: each step yields an arbitrary present key (order and exactly-once visiting are not modelled)")
		default:
			k := e.havocVal(fr.prefix+x.Name()+".k", types.Typ[types.Int], cur)
			r := e.havocVal(fr.prefix+x.Name()+".r", types.Typ[types.Rune], cur)
			fr.vals[x] = Val{Tup: []Val{{T: okv}, k, r}}
		}
	default:
		c.Unsupported("instruction %T in %s", in, fr.fn)
		if v, ok := in.(ssa.Value); ok {
			fr.vals[v] = e.havocVal(fr.prefix+v.Name(), v.Type(), cur)
		}
	}
	return cur, st, false
}

func (e *Eval) rawPanic(fr *Frame, st *State, cond string) {
	if cond == "false" {
		return
	}
	fr.panics = append(fr.panics, exitRec{cond: cond, st: st.Clone(), ndefers: len(fr.defers)})
}

func (e *Eval) nilCheck(fr *Frame, in ssa.Instruction, cur string, p Val) {
	if len(e.safety) == 0 || p.T == "" {
		return
	}
	// receivers, fresh allocations and values already dereferenced are the
	// common case; the obligation is cheap
	for _, a := range e.allocs {
		if a == p.T {
			return
		}
	}
	e.safetyOb(fr, in, "nil", cur, "(not (= "+p.T+" 0))")
}

func cellOnly(a *ssa.Alloc) bool {
	refs := a.Referrers()
	if refs == nil {
		return false
	}
	for _, r := range *refs {
		switch x := r.(type) {
		case *ssa.Store:
			if x.Val == a {
				return false
			}
		case *ssa.UnOp, *ssa.DebugRef:
		case *ssa.MakeClosure:
		default:
			return false
		}
	}
	return true
}

func (e *Eval) mapComps(u *types.Map) (string, string) {
	ks, vs := e.c.Sort(u.Key()), e.c.Sort(u.Elem())
	base := "M." + sanitize(typeKey(u))
	e.c.DeclComp(base+".dom", fmt.Sprintf("(Array Int (Array %s Bool))", ks))
	e.c.DeclComp(base+".val", fmt.Sprintf("(Array Int (Array %s %s))", ks, vs))
	switch u.Elem().Underlying().(type) {
	case *types.Pointer, *types.Map, *types.Chan:
		e.c.ptrComps[base+".val"] = "map:" + ks
	}
	switch u.Key().Underlying().(type) {
	case *types.Pointer, *types.Map, *types.Chan:
		e.c.ptrComps[base+".dom"] = "mapkey"
	}
	return base + ".dom", base + ".val"
}

func (e *Eval) ghostCount(st *State, name string) {
	if strings.HasPrefix(name, "$c.") {
		if e.c.countersBumped == nil {
			e.c.countersBumped = map[string]bool{}
		}
		e.c.countersBumped[name] = true
	}
	e.c.DeclComp(name, "Int")
	e.c.Set(st, name, "(+ "+e.c.Get(st, name)+" 1)")
}

func (e *Eval) ghostEvent(st *State, kind, obj string) {
	e.ghostCount(st, "$"+kind)
}

// hooks used by ghost instrumentation (filled in by later layers)
func (e *Eval) afterStore(fr *Frame, st *State, p Val, t types.Type, cur string, in ssa.Instruction, newv string) {
	e.guardCheck(fr, st, p, cur, true)
	if p.A == nil || p.A.Kind != "field" || len(p.A.Path) != 0 {
		return
	}
	c := e.c
	switch r := e.ruleFor(p.A.Comp); {
	case r == nil:
	case r.Kind == "refcount":
		// initialising the counter of an object allocated by this invocation:
		// the invocation owes that many references
		e.declOwed()
		w, _, _ := isInt(p.A.Typ)
		if lit, ok := bvLitValue(newv, w); ok {
			o := c.Get(st, "$owed")
			c.Set(st, "$owed", sto(o, p.A.Base, fmt.Sprintf("(+ %s %d)", sel(o, p.A.Base), lit)))
		} else {
			c.Unsupported("store of a non-constant reference count in %s", fr.fn)
		}
	case r.Kind == "reflink":
		// the link takes over one reference the invocation holds on the target
		e.declOwed()
		o := c.Get(st, "$owed")
		c.Set(st, "$owed", ite(eq(newv, "0"), o, sto(o, newv, "(- "+sel(o, newv)+" 1)")))
	case r.Kind == "ownfield":
		e.declOwn()
		o := c.Get(st, "$own")
		e.oblige("own@"+e.site("store:"+r.Type+"."+r.Field)+"/stores-only-owned-file", "ownership", r.Props, cur,
			or(eq(newv, "(mk-iface 0 0)"), eq(sel(o, newv), "1")), "a File stored into "+r.Type+"."+r.Field+" must be one this invocation obtained from the backend and still owns (no sharing between references)", r.Where)
		c.Set(st, "$own", ite(eq(newv, "(mk-iface 0 0)"), o, sto(o, newv, "2")))
	}
}

func bvLitValue(t string, w int) (int64, bool) {
	if strings.HasPrefix(t, "#x") {
		var v uint64
		if _, err := fmt.Sscanf(t[2:], "%x", &v); err == nil {
			if w < 64 && v&(1<<uint(w-1)) != 0 {
				return int64(v) - (1 << uint(w)), true
			}
			return int64(v), true
		}
	}
	return 0, false
}

func (e *Eval) declOwed() { e.c.DeclComp("$owed", "(Array Int Int)") }
func (e *Eval) declOwn()  { e.c.DeclComp("$own", "(Array Iface Int)") }

func (e *Eval) ruleFor(comp string) *GhostRule {
	for _, r := range e.p.cs.GhostRules {
		pkg := e.p.pkgs[r.Pkg]
		if pkg == nil {
			continue
		}
		o := pkg.Pkg.Scope().Lookup(r.Type)
		if o == nil {
			continue
		}
		if idx := fieldIndex(o.Type(), r.Field); idx >= 0 && fieldComp(o.Type(), idx) == comp {
			return r
		}
	}
	return nil
}

// tableRule: the reftable rule for a map loaded from field comp, if any.
func (e *Eval) mapProvenance(term string) *GhostRule {
	if comp, ok := e.mapFrom[term]; ok {
		if r := e.ruleFor(comp); r != nil && r.Kind == "reftable" {
			return r
		}
	}
	return nil
}

// guardCheck: guarded-by classification of shared fields (C07/C16). Accesses
// to objects allocated by the current invocation are exempt (not yet shared).
func (e *Eval) guardCheck(fr *Frame, st *State, p Val, cur string, write bool) {
	if p.A == nil || p.A.Kind != "field" || e.root == nil || e.root.fn == nil {
		return
	}
	for _, g := range e.p.cs.Guards {
		pkg := e.p.pkgs[g.Pkg]
		if pkg == nil {
			continue
		}
		o := pkg.Pkg.Scope().Lookup(g.Type)
		if o == nil {
			continue
		}
		idx := fieldIndex(o.Type(), g.Field)
		if idx < 0 || fieldComp(o.Type(), idx) != p.A.Comp {
			continue
		}
		for _, a := range e.allocs {
			if a == p.A.Base {
				return
			}
		}
		cl := g.Read
		kind := "read"
		if write {
			cl, kind = g.Write, "write"
		}
		if cl == nil {
			continue
		}
		ex, err := cl.Parse()
		if err != nil {
			e.c.Unsupported("%v", err)
			continue
		}
		env := e.newEnv(pkg, st, e.entry)
		env.vars["r"] = TV{T: p.A.Base, Ty: types.NewPointer(o.Type())}
		e.oblige(fmt.Sprintf("guard@%s/%s", e.site(g.Type+"."+g.Field+"#"+kind), kind), "guard", cl.Props, cur, env.evalBool(ex), g.Type+"."+g.Field+" "+kind+": "+cl.Text, cl.Where)
	}
}
func (e *Eval) afterMapUpdate(fr *Frame, st *State, u *types.Map, m string, cur string, in ssa.Instruction) {}

// tableUpdate: entries of a reference table hold one reference each. The
// invocation takes over the reference of a replaced / deleted entry and hands
// one of its own to a new entry.
func (e *Eval) tableUpdate(st *State, u *types.Map, m, k, newv string, pre *State) {
	if e.mapProvenance(m) == nil {
		return
	}
	c := e.c
	e.declOwed()
	dom, val := e.mapComps(u)
	had := sel(sel(c.Get(pre, dom), m), k)
	oldv := sel(sel(c.Get(pre, val), m), k)
	o := c.Get(st, "$owed")
	o = ite(and(had, not(eq(oldv, "0"))), sto(o, oldv, "(+ "+sel(o, oldv)+" 1)"), o)
	o = c.Define("$owed", "(Array Int Int)", o)
	if newv != "" {
		o = ite(eq(newv, "0"), o, sto(o, newv, "(- "+sel(o, newv)+" 1)"))
	}
	c.Set(st, "$owed", o)
}
func (e *Eval) allocOb(fr *Frame, in ssa.Instruction, cur, n string, elem types.Type) {
	if e.rootC == nil || e.rootC.AllocBound == nil {
		return
	}
	cl := e.rootC.AllocBound
	ex, err := cl.Parse()
	if err != nil {
		e.c.Unsupported("%v", err)
		return
	}
	env := e.newEnv(e.rootPkg, e.curSt, e.entry)
	e.bindParams(env, e.root)
	e.bindCells(env, e.root)
	b := env.coerce(env.eval(ex), types.Typ[types.Int])
	e.oblige("alloc#"+e.site("make@"+shortFn(fr.fn))+"/bounded", "alloc", cl.Props, cur, "(bvsle "+n+" "+b.T+")", "allocation size <= "+cl.Text, cl.Where)
}

func (e *Eval) implPred(iface types.Type, tag string) string {
	name := "impl." + sanitize(typeKey(iface))
	e.c.Decl(name, fmt.Sprintf("(declare-fun %s (Int) Bool)", q(name)))
	e.c.implIfaces[name] = iface
	return fmt.Sprintf("(%s %s)", q(name), tag)
}

func (e *Eval) sliceOp(fr *Frame, x *ssa.Slice, st *State, cur string) Val {
	c := e.c
	v := e.val(fr, x.X)
	z := bvLit(64, 0)
	get := func(sv ssa.Value, def string) string {
		if sv == nil {
			return def
		}
		r := e.val(fr, sv)
		return e.convert(r.T, sv.Type(), types.Typ[types.Int])
	}
	switch u := x.X.Type().Underlying().(type) {
	case *types.Slice:
		lo := get(x.Low, z)
		hi := get(x.High, "(s.len "+v.T+")")
		mx := get(x.Max, "(s.cap "+v.T+")")
		e.safetyOb(fr, x, "slice", cur, and("(bvsle "+z+" "+lo+")", "(bvsle "+lo+" "+hi+")", "(bvsle "+hi+" "+mx+")", "(bvsle "+mx+" (s.cap "+v.T+"))"))
		return Val{T: c.Define(fr.prefix+x.Name(), "Slice", fmt.Sprintf("(mk-slice (s.arr %s) (bvadd (s.off %s) %s) (bvsub %s %s) (bvsub %s %s))", v.T, v.T, lo, hi, lo, mx, lo))}
	case *types.Basic: // string
		lo := get(x.Low, z)
		hi := get(x.High, "(gs.len "+v.T+")")
		e.safetyOb(fr, x, "strslice", cur, and("(bvsle "+z+" "+lo+")", "(bvsle "+lo+" "+hi+")", "(bvsle "+hi+" (gs.len "+v.T+"))"))
		c.Decl("gs.sub", "(declare-fun gs.sub (GStr (_ BitVec 64) (_ BitVec 64)) GStr)\n(assert (forall ((s GStr) (a (_ BitVec 64)) (b (_ BitVec 64))) (! (=> (and (bvsle #x0000000000000000 a) (bvsle a b) (bvsle b (gs.len s))) (= (gs.len (gs.sub s a b)) (bvsub b a))) :pattern ((gs.sub s a b)))))\n(assert (forall ((s GStr) (a (_ BitVec 64)) (b (_ BitVec 64)) (i (_ BitVec 64))) (! (=> (and (bvsle #x0000000000000000 i) (bvslt i (bvsub b a))) (= (gs.at (gs.sub s a b) i) (gs.at s (bvadd a i)))) :pattern ((gs.at (gs.sub s a b) i)))))")
		return Val{T: c.Define(fr.prefix+x.Name(), "GStr", fmt.Sprintf("(gs.sub %s %s %s)", v.T, lo, hi))}
	case *types.Pointer:
		at := u.Elem().Underlying().(*types.Array)
		n := bvLit(64, uint64(at.Len()))
		lo := get(x.Low, z)
		hi := get(x.High, n)
		mx := get(x.Max, n)
		e.safetyOb(fr, x, "slice", cur, and("(bvsle "+z+" "+lo+")", "(bvsle "+lo+" "+hi+")", "(bvsle "+hi+" "+mx+")", "(bvsle "+mx+" "+n+")"))
		if v.A != nil && v.A.Kind == "array" {
			return Val{T: c.Define(fr.prefix+x.Name(), "Slice", fmt.Sprintf("(mk-slice %s %s (bvsub %s %s) (bvsub %s %s))", v.A.Base, lo, hi, lo, mx, lo))}
		}
	}
	c.Unsupported("slice of %s in %s", x.X.Type(), fr.fn)
	return e.havocVal(fr.prefix+x.Name(), x.Type(), cur)
}

// ---------- arithmetic ----------

func (e *Eval) convert(v string, from, to types.Type) string {
	c := e.c
	fw, fs, fi := isInt(from)
	tw, _, ti := isInt(to)
	if fi && ti {
		switch {
		case fw == tw:
			return v
		case fw > tw:
			return fmt.Sprintf("((_ extract %d 0) %s)", tw-1, v)
		case fs:
			return fmt.Sprintf("((_ sign_extend %d) %s)", tw-fw, v)
		default:
			return fmt.Sprintf("((_ zero_extend %d) %s)", tw-fw, v)
		}
	}
	fsrt, tsrt := c.Sort(from), c.Sort(to)
	if fsrt == tsrt {
		return v
	}
	switch {
	case fsrt == "Slice" && tsrt == "GStr":
		c.Unsupported("string([]byte) conversion needs state; handled in Convert special case")
	}
	name := "conv." + sanitize(fsrt) + "." + sanitize(tsrt)
	c.Decl(name, fmt.Sprintf("(declare-fun %s (%s) %s)", q(name), fsrt, tsrt))
	return fmt.Sprintf("(%s %s)", q(name), v)
}

func (e *Eval) binop(op token.Token, a, b Val, ta, tb, tr types.Type) (string, string) {
	c := e.c
	w, signed, isi := isInt(ta)
	x, y := a.T, b.T
	if isi {
		switch op {
		case token.ADD:
			return "(bvadd " + x + " " + y + ")", ""
		case token.SUB:
			return "(bvsub " + x + " " + y + ")", ""
		case token.MUL:
			return "(bvmul " + x + " " + y + ")", ""
		case token.QUO:
			nz := "(not (= " + y + " " + bvLit(w, 0) + "))"
			if signed {
				return "(bvsdiv " + x + " " + y + ")", nz
			}
			return "(bvudiv " + x + " " + y + ")", nz
		case token.REM:
			nz := "(not (= " + y + " " + bvLit(w, 0) + "))"
			if signed {
				return "(bvsrem " + x + " " + y + ")", nz
			}
			return "(bvurem " + x + " " + y + ")", nz
		case token.AND:
			return "(bvand " + x + " " + y + ")", ""
		case token.OR:
			return "(bvor " + x + " " + y + ")", ""
		case token.XOR:
			return "(bvxor " + x + " " + y + ")", ""
		case token.AND_NOT:
			return "(bvand " + x + " (bvnot " + y + "))", ""
		case token.SHL, token.SHR:
			sw, _, _ := isInt(tb)
			sh := y
			switch {
			case sw < w:
				sh = fmt.Sprintf("((_ zero_extend %d) %s)", w-sw, y)
			case sw > w:
				sh = fmt.Sprintf("(ite (bvuge %s %s) %s ((_ extract %d 0) %s))", y, bvLit(sw, uint64(w)), bvLit(w, uint64(w)), w-1, y)
			}
			if op == token.SHL {
				return "(bvshl " + x + " " + sh + ")", ""
			}
			if signed {
				return "(bvashr " + x + " " + sh + ")", ""
			}
			return "(bvlshr " + x + " " + sh + ")", ""
		case token.EQL:
			return eq(x, y), ""
		case token.NEQ:
			return not(eq(x, y)), ""
		case token.LSS, token.LEQ, token.GTR, token.GEQ:
			m := map[token.Token]string{token.LSS: "lt", token.LEQ: "le", token.GTR: "gt", token.GEQ: "ge"}[op]
			p := "bvu"
			if signed {
				p = "bvs"
			}
			return "(" + p + m + " " + x + " " + y + ")", ""
		}
	}
	switch op {
	case token.EQL:
		return eq(x, y), ""
	case token.NEQ:
		return not(eq(x, y)), ""
	case token.ADD:
		if c.Sort(ta) == "GStr" {
			e.declConcat()
			return "(gs.cat " + x + " " + y + ")", ""
		}
	case token.LAND:
		return and(x, y), ""
	case token.LOR:
		return or(x, y), ""
	}
	c.Unsupported("binop %s on %s", op, ta)
	return c.Fresh("binop", c.Sort(tr)), ""
}

func (e *Eval) declConcat() {
	e.c.Decl("gs.cat", "(declare-fun gs.cat (GStr GStr) GStr)\n(assert (forall ((a GStr) (b GStr)) (! (= (gs.len (gs.cat a b)) (bvadd (gs.len a) (gs.len b))) :pattern ((gs.cat a b)))))")
}
