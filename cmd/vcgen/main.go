package main

import (
	"encoding/json"
	"flag"
	"fmt"
	"go/types"
	"os"
	"path/filepath"
	"sort"
	"strconv"
	"strings"
	"sync"
	"time"

	"golang.org/x/tools/go/ssa"
)

var verifDir = "/verif"

type oblResult struct {
	Func string
	O    *Obligation
	R    SolveResult
	Ctx  *Ctx
	Full string // full name: <func>/<obligation>
}

type finding struct {
	Prop, Obligation, What string
	Fixed                  bool
}

func loadFindings(path string) []finding {
	var out []finding
	b, err := os.ReadFile(path)
	if err != nil {
		return nil
	}
	for _, ln := range strings.Split(string(b), "\n") {
		ln = strings.TrimSpace(ln)
		if ln == "" || strings.HasPrefix(ln, "#") {
			continue
		}
		f := finding{}
		if strings.HasPrefix(ln, "fixed:") {
			f.Fixed = true
		} else if !strings.HasPrefix(ln, "finding:") {
			continue
		}
		rest := ln[strings.IndexByte(ln, ':')+1:]
		what := ""
		if i := strings.Index(rest, " -- "); i >= 0 {
			what = strings.TrimSpace(rest[i+4:])
			rest = rest[:i]
		}
		for _, tok := range strings.Fields(rest) {
			if strings.HasPrefix(tok, "property=") {
				f.Prop = tok[9:]
			} else if strings.HasPrefix(tok, "obligation=") {
				f.Obligation = tok[11:]
			}
		}
		f.What = what
		out = append(out, f)
	}
	return out
}

func main() {
	if len(os.Args) < 2 {
		fmt.Fprintln(os.Stderr, "usage: vcgen check|list|dump ...")
		os.Exit(2)
	}
	switch os.Args[1] {
	case "check":
		os.Exit(cmdCheck(os.Args[2:]))
	case "list":
		os.Exit(cmdList(os.Args[2:]))
	case "dump":
		os.Exit(cmdDump(os.Args[2:]))
	case "replay":
		os.Exit(cmdReplay(os.Args[2:]))
	}
	fmt.Fprintln(os.Stderr, "unknown command")
	os.Exit(2)
}

var patterns = []string{"./p9", "./vecnet", "./linux", "./fsimpl/..."}

func loadAll(repo string) (*Program, error) {
	specs, _ := filepath.Glob(filepath.Join(verifDir, "contracts", "*.spec"))
	sort.Strings(specs)
	return Load(repo, patterns, specs)
}

func cmdList(args []string) int {
	fs := flag.NewFlagSet("list", flag.ExitOnError)
	repo := fs.String("repo", "/repo", "")
	fs.Parse(args)
	p, err := loadAll(*repo)
	if err != nil {
		fmt.Fprintln(os.Stderr, err)
		return 2
	}
	for _, k := range p.cs.Order {
		c := p.cs.Contracts[k]
		fmt.Printf("%s props=%v\n", k, allProps(c))
	}
	return 0
}

func genFor(p *Program, prop string, only string) ([]*FuncResult, []string) {
	var out []*FuncResult
	var problems []string
	for _, key := range p.cs.Order {
		k := p.cs.Contracts[key]
		if only != "" && !strings.Contains(key, only) {
			continue
		}
		if k.Kind == "lemma" {
			ok := false
			for _, cl := range k.Lemmas {
				if prop == "" || hasProp(cl.Props, prop) {
					ok = true
				}
			}
			if ok {
				out = append(out, VerifyLemma(p, key, k))
			}
			continue
		}
		if k.Kind == "interface" && k.Impls {
			out = append(out, implResults(p, key, k, only)...)
			continue
		}
		if k.Kind != "func" || k.Abstract {
			continue
		}
		fn := p.funcs[k.Pkg+"."+k.Name]
		if fn == nil {
			fn = p.resolveMethod(k.Pkg, k.Name)
		}
		if fn == nil {
			problems = append(problems, fmt.Sprintf("contract %s: function not found in /repo (renamed or removed)", key))
			continue
		}
		fr := safeVerifyFunc(p, key, fn, k)
		out = append(out, fr)
	}
	for _, cg := range p.cs.ConstGlobals {
		if (prop == "" || hasProp(cg.Props, prop)) && (only == "" || strings.Contains("constglobal:"+cg.Name, only)) {
			out = append(out, ConstGlobalResult(p, cg))
		}
	}
	return out, problems
}

func cmdDump(args []string) int {
	fs := flag.NewFlagSet("dump", flag.ExitOnError)
	repo := fs.String("repo", "/repo", "")
	fn := fs.String("func", "", "substring of contract key")
	ob := fs.String("ob", "", "substring of obligation name")
	fs.Parse(args)
	p, err := loadAll(*repo)
	if err != nil {
		fmt.Fprintln(os.Stderr, err)
		return 2
	}
	frs, probs := genFor(p, "", *fn)
	for _, pr := range probs {
		fmt.Fprintln(os.Stderr, pr)
	}
	for _, fr := range frs {
		for _, u := range fr.Unsupported {
			fmt.Fprintf(os.Stderr, "UNSUPPORTED %s: %s\n", fr.Key, u)
		}
		for _, o := range fr.Obls {
			if *ob == "" {
				fmt.Printf("%s/%s %v\n", fr.Key, o.Name, o.Props)
				continue
			}
			if strings.Contains(o.Name, *ob) {
				fmt.Printf("; %s/%s %v\n", fr.Key, o.Name, o.Props)
				fmt.Print(fr.Ctx.Query(o, true))
			}
		}
	}
	return 0
}

func cmdCheck(args []string) int {
	fs := flag.NewFlagSet("check", flag.ExitOnError)
	repo := fs.String("repo", "/repo", "")
	prop := fs.String("prop", "", "property id")
	tier := fs.String("tier", "quick", "quick|thorough")
	exact := fs.String("exact", "", "restrict to the obligation with exactly this name (used by replay)")
	only := fs.String("only", "", "restrict to contracts containing this substring (debugging; no evidence written)")
	verbose := fs.Bool("v", false, "")
	nocache := fs.Bool("nocache", false, "")
	workers := fs.Int("j", 8, "parallel obligations")
	outDir := fs.String("out", "", "directory for evidence/ and replays/ (default /verif)")
	writeHints := fs.Bool("write-hints", false, "update baseline/hints.json with the solver that decided each obligation")
	writeBaseline := fs.Bool("write-baseline", false, "write baseline/<prop>.obligations (names of the obligations discharged now)")
	fs.Parse(args)
	currentProp = *prop
	if *prop == "" {
		fmt.Fprintln(os.Stderr, "need -prop")
		return 2
	}
	if *nocache || *tier == "thorough" {
		useCache = false
	}
	if *outDir == "" {
		*outDir = verifDir
	}
	start := time.Now()
	seed := 0
	if s := os.Getenv("VERIF_SEED"); s != "" {
		seed, _ = strconv.Atoi(s)
	}
	timeout := 10 * time.Second
	if *tier == "thorough" {
		timeout = 60 * time.Second
	}
	p, err := loadAll(*repo)
	if err != nil {
		fmt.Fprintln(os.Stderr, "BROKEN: load:", err)
		return 2
	}
	loadS := time.Since(start).Seconds()
	if b, err := os.ReadFile(filepath.Join(verifDir, "baseline", "hints.json")); err == nil {
		json.Unmarshal(b, &hints)
	}
	frs, problems := genFor(p, *prop, *only)
	scratch := filepath.Join(verifDir, ".cache", "scratch")
	os.MkdirAll(scratch, 0o755)

	var work []*oblResult
	unsupportedFuncs := map[string][]string{}
	for _, fr := range frs {
		if len(fr.Unsupported) > 0 {
			unsupportedFuncs[fr.Key] = fr.Unsupported
		}
		for _, o := range fr.Obls {
			if !hasProp(o.Props, *prop) {
				continue
			}
			full := strings.TrimPrefix(fr.Key, "func:") + "/" + o.Name
			if *exact != "" && full != *exact && !o.Cover {
				continue
			}
			work = append(work, &oblResult{Func: fr.Key, O: o, Ctx: fr.Ctx, Full: full})
		}
	}
	var wg sync.WaitGroup
	sem := make(chan struct{}, *workers)
	for _, w := range work {
		w := w
		wg.Add(1)
		sem <- struct{}{}
		go func() {
			defer wg.Done()
			defer func() { <-sem }()
			to := timeout
			if w.O.Cover {
				to = 2 * time.Second
			}
			w.R = SolveHint(w.Ctx.Query(w.O, false), to, scratch, w.O.Cover, hints[w.Full])
		}()
	}
	wg.Wait()

	// second pass: obligations that ran out of time while 16 workers were
	// competing for the cores are retried one at a time with a long limit, so
	// that machine load never turns into an alarm. Skipped when many
	// obligations are undecided (that is not a scheduling accident).
	var retry []*oblResult
	knownNames := map[string]bool{}
	for _, f := range loadFindings(filepath.Join(verifDir, "known_findings.txt")) {
		if f.Prop == *prop && !f.Fixed {
			knownNames[f.Obligation] = true
		}
	}
	for _, w := range work {
		if knownNames[w.Full] {
			continue // a recorded finding is expected not to discharge
		}
		if !w.O.Cover && (w.R.Answer == "timeout" || w.R.Answer == "unknown" || w.R.Answer == "error") {
			retry = append(retry, w)
		}
	}
	if len(retry) > 0 && len(retry) <= 6 && *only == "" && os.Getenv("VERIF_NO_RETRY") == "" {
		for _, w := range retry {
			r := SolveHint(w.Ctx.Query(w.O, false), 150*time.Second, scratch, false, hints[w.Full])
			if r.Answer == "unsat" || r.Answer == "sat" {
				r.Seconds += w.R.Seconds
				w.R = r
			}
		}
	}

	if *writeHints {
		hf := filepath.Join(verifDir, "baseline", "hints.json")
		all := map[string]string{}
		if b, err := os.ReadFile(hf); err == nil {
			json.Unmarshal(b, &all)
		}
		for _, w := range work {
			if w.R.Answer == "unsat" && w.R.Solver != "z3-new" && !w.R.Cached {
				all[w.Full] = w.R.Solver
			} else if w.R.Answer == "unsat" && !w.R.Cached {
				delete(all, w.Full)
			}
		}
		os.MkdirAll(filepath.Dir(hf), 0o755)
		b, _ := json.MarshalIndent(all, "", " ")
		os.WriteFile(hf, b, 0o644)
	}
	if *writeBaseline {
		var names []string
		for _, w := range work {
			if !w.O.Cover && w.R.Answer == "unsat" && len(unsupportedFuncs[w.Func]) == 0 {
				names = append(names, w.Full)
			}
		}
		sort.Strings(names)
		os.MkdirAll(filepath.Join(verifDir, "baseline"), 0o755)
		os.WriteFile(filepath.Join(verifDir, "baseline", *prop+".obligations"), []byte(strings.Join(names, "\n")+"\n"), 0o644)
	}
	findings := loadFindings(filepath.Join(verifDir, "known_findings.txt"))
	baseline := loadBaseline(filepath.Join(verifDir, "baseline", *prop+".obligations"))
	known := map[string]finding{}
	for _, f := range findings {
		if f.Prop == *prop && !f.Fixed {
			known[f.Obligation] = f
		}
	}

	nObl, nDis, nCover, nCoverOK := 0, 0, 0, 0
	byBackend := map[string]int{}
	solverTime := 0.0
	cacheHits := 0
	var violations, undecided, knownHit []string
	var samples []map[string]interface{}
	assumptions := map[string]bool{}
	funcs := map[string]bool{}
	seen := map[string]bool{}
	exit := 0
	os.MkdirAll(filepath.Join(*outDir, "replays"), 0o755)
	for _, w := range work {
		funcs[w.Func] = true
		for a := range w.Ctx.assumptions {
			assumptions[a] = true
		}
		seen[w.Full] = true
		solverTime += w.R.Seconds
		if w.R.Cached {
			cacheHits++
		}
		tainted := len(unsupportedFuncs[w.Func]) > 0
		if w.O.Cover {
			nCover++
			if w.R.Answer == "unsat" {
				// vacuous: precondition contradictory or exit unreachable
				violations = append(violations, w.Full)
				fmt.Printf("VACUOUS %s: requires/exit not satisfiable\n", w.Full)
				exit = 2
			} else {
				nCoverOK++
			}
			continue
		}
		if _, isKnown := known[w.Full]; isKnown {
			if w.R.Answer == "unsat" && !tainted {
				fmt.Printf("STALE-FINDING %s now discharges\n", w.Full)
			} else {
				f := known[w.Full]
				fmt.Printf("KNOWN-FINDING: property=%s %s [%s]\n", *prop, f.What, w.Full)
				knownHit = append(knownHit, w.Full)
			}
			continue
		}
		nObl++
		if w.R.Seconds > 3 && *verbose {
			fmt.Printf("SLOW %.1fs %s (%s %s)\n", w.R.Seconds, w.Full, w.R.Answer, w.R.Solver)
		}
		ok := w.R.Answer == "unsat" && !tainted
		if ok {
			nDis++
			byBackend[w.R.Solver]++
			if len(samples) < 4 {
				samples = append(samples, map[string]interface{}{"obligation": w.Full, "clause": w.O.Clause, "kind": w.O.Kind, "answer": w.R.Answer, "solver": w.R.Solver, "seconds": w.R.Seconds, "smt_bytes": len(w.Ctx.Query(w.O, false))})
			}
			continue
		}
		if *verbose || true {
			fmt.Printf("NOT-DISCHARGED %s: %s (%s) %s\n", w.Full, w.R.Answer, w.R.Solver, w.O.Clause)
		}
		// baseline/<prop>.obligations lists what discharged on the unchanged
		// tree. An obligation on that list that no longer discharges is a
		// violation whatever the reason (the proof that was there is gone).
		// An obligation not on the list (a new call site, a new function)
		// that fails only because its function calls something without a
		// contract is undecided: a new dependency is not a broken property.
		listed := baseline != nil && baseline[w.Full]
		if tainted && !listed && onlyMissingContracts(unsupportedFuncs[w.Func]) {
			undecided = append(undecided, w.Full+" (function calls something without a contract)")
			continue
		}
		// violation
		replay := filepath.Join(*outDir, "replays", *prop+"-"+sanitizeFile(w.Full)+".json")
		rep := map[string]interface{}{"property": *prop, "obligation": w.Full, "clause": w.O.Clause, "where": w.O.Where, "answer": w.R.Answer, "solver": w.R.Solver, "solver_output": truncate(w.R.Output, 4000)}
		suffix := " no-failing-input-found"
		{
			// candidate counterexample from the quantifier-free relaxation
			m := Model(w.Ctx.RelaxedQuery(w.O), "z3-new", 10*time.Second, scratch)
			rep["candidate_model"] = truncate(m, 20000)
			if *verbose {
				head := m
				if i := strings.Index(m, "\n(\n"); i >= 0 {
					head = m[:i]
				}
				fmt.Printf("   candidate: %s\n", truncate(strings.TrimSpace(head), 1500))
			}
			if strings.HasPrefix(strings.TrimSpace(m), "sat") {
				if confirmed := tryReplay(*prop, w, m, rep); confirmed {
					suffix = ""
				}
			}
		}
		if f, confirmed, out := registeredReplay(*repo, w.Full); f != "" {
			rep["registered_replay"] = f
			rep["registered_replay_output"] = truncate(out, 6000)
			if confirmed {
				// the committed test of the real code fails on this tree
				suffix = ""
				rep["go_test"] = json.RawMessage(goTestOf(f))
			}
		}
		b, _ := json.MarshalIndent(rep, "", " ")
		os.WriteFile(replay, b, 0o644)
		fmt.Printf("VIOLATION property=%s replay=%s%s\n", *prop, replay, suffix)
		violations = append(violations, w.Full)
		if exit == 0 {
			exit = 1
		}
	}
	// thorough tier: the committed tests of the real code that demonstrated
	// earlier defects of this property (replay/registry.json) are run again
	// against the tree under check, with the race detector where they ask
	// for it; a failing one is a violation replayed on the real code.
	replaysRun := 0
	if *tier == "thorough" && *only == "" {
		seenFile := map[string]bool{}
		if b, err := os.ReadFile(filepath.Join(verifDir, "replay", "registry.json")); err == nil {
			reg := map[string]string{}
			json.Unmarshal(b, &reg)
			var files []string
			for _, f := range reg {
				if !seenFile[f] {
					seenFile[f] = true
					files = append(files, f)
				}
			}
			sort.Strings(files)
			for _, f := range files {
				var meta struct {
					Property   string `json:"property"`
					Obligation string `json:"obligation"`
				}
				if fb, err := os.ReadFile(f); err != nil || json.Unmarshal(fb, &meta) != nil || meta.Property != *prop {
					continue
				}
				replaysRun++
				if passed, out := runGoTestReplay(*repo, f); !passed {
					fmt.Printf("REPLAY-FAILS %s\n%s\n", f, truncate(out, 3000))
					fmt.Printf("VIOLATION property=%s replay=%s\n", *prop, f)
					violations = append(violations, "replay:"+meta.Obligation)
					if exit == 0 {
						exit = 1
					}
				}
			}
		}
	}
	// baseline obligations that disappeared
	var missing []string
	for name := range baseline {
		if *only != "" {
			break // debug run: only part of the obligations is generated
		}
		if !seen[name] {
			missing = append(missing, name)
		}
	}
	sort.Strings(missing)
	for _, m := range missing {
		undecided = append(undecided, m+" (obligation no longer generated: contract key or call site not found)")
		fmt.Printf("UNDECIDED %s: obligation in baseline no longer generated\n", m)
	}
	for _, pr := range problems {
		fmt.Printf("UNDECIDED %s\n", pr)
		undecided = append(undecided, pr)
	}
	for f, us := range unsupportedFuncs {
		for _, u := range us {
			fmt.Printf("UNSUPPORTED %s: %s\n", f, u)
		}
	}
	if nObl == 0 && len(knownHit) == 0 {
		fmt.Println("BROKEN: no obligations generated for", *prop)
		exit = 2
	}
	if *only != "" {
		fmt.Printf("%s: %d/%d discharged (debug run, no evidence)\n", *prop, nDis, nObl)
		return exit
	}
	// evidence
	var fl []string
	for f := range funcs {
		fl = append(fl, strings.TrimPrefix(f, "func:"))
	}
	sort.Strings(fl)
	var al []string
	for a := range assumptions {
		al = append(al, a)
	}
	al = append(al, "front end: go/packages + go/types + go/ssa (x/tools v0.29.0), GOOS=linux GOARCH=amd64, tags=verif",
		"VC generator /verif/cmd/vcgen (own code) and its memory model (DESIGN.md 2.4)",
		"solvers: z3 5.1.0 (z3-new), cvc5 1.0.3, z3 4.8.12")
	sort.Strings(al)
	if len(samples) == 0 {
		samples = append(samples, map[string]interface{}{"note": "no discharged obligation in this run"})
	}
	ev := map[string]interface{}{
		"property_id": *prop, "tier": *tier, "seed": seed, "level": "proof",
		"coverage": map[string]interface{}{
			"obligations": nObl, "discharged": nDis,
			"checker_cmd":              fmt.Sprintf("bin/vcgen check -prop %s -tier %s", *prop, *tier),
			"trusted_base":             al,
			"functions_under_contract": fl,
			"by_backend":               byBackend,
			"solver_time_s":            solverTime,
			"cache_hits":               cacheHits,
			"covers_checked":           nCover,
			"covers_satisfiable":       nCoverOK,
			"undecided":                undecided,
			"known_findings_hit":       knownHit,
			"violations":               violations,
			"unsupported":              unsupportedFuncs,
			"samples":                  samples,
			"load_s":                   loadS,
			"contract_files":           p.files,
			"replay_tests_run":         replaysRun,
		},
		"assumptions": al,
		"wall_s":      time.Since(start).Seconds(),
		"violations":  len(violations),
	}
	os.MkdirAll(filepath.Join(*outDir, "evidence"), 0o755)
	b, _ := json.MarshalIndent(ev, "", " ")
	os.WriteFile(filepath.Join(*outDir, "evidence", *prop+".json"), b, 0o644)
	fmt.Printf("%s: %d/%d obligations discharged, %d covers, %d undecided, %d known findings, %.1fs\n", *prop, nDis, nObl, nCover, len(undecided), len(knownHit), time.Since(start).Seconds())
	if exit == 0 && nDis < nObl {
		// undecided obligations that were never claimed do not raise an alarm
	}
	return exit
}

// goTestOf returns the go_test object of a committed replay file.
func goTestOf(file string) []byte {
	b, err := os.ReadFile(file)
	if err != nil {
		return []byte("null")
	}
	var m map[string]json.RawMessage
	if json.Unmarshal(b, &m) != nil || m["go_test"] == nil {
		return []byte("null")
	}
	return m["go_test"]
}

// safeVerifyFunc: a contract that can no longer be evaluated against the code
// (an identifier that now denotes something of another type, a loop that has
// another shape, ...) must not take the whole check down: it becomes one
// failing obligation of the function, tagged with every property of the
// contract (the contract no longer applies to the code = violation).
func safeVerifyFunc(p *Program, key string, fn *ssa.Function, k *Contract) (res *FuncResult) {
	defer func() {
		if r := recover(); r != nil {
			e := NewEval(p)
			e.rootKey = key
			msg := fmt.Sprintf("the contract cannot be evaluated against the current code (%v)", r)
			e.oblige("contract/applies-to-the-code", "contract", allProps(k), "true", "false", msg, "")
			res = &FuncResult{Key: key, Contract: k, Obls: e.obls, Ctx: e.c, Unsupported: []string{msg}}
		}
	}()
	return VerifyFunc(p, key, fn, k)
}

func sanitizeFile(s string) string {
	r := strings.NewReplacer("/", "_", "*", "", "(", "", ")", "", " ", "_", "#", "-", "$", "-", ":", "-", "@", "-at-")
	return r.Replace(s)
}

func loadBaseline(path string) map[string]bool {
	b, err := os.ReadFile(path)
	if err != nil {
		return nil
	}
	m := map[string]bool{}
	for _, ln := range strings.Split(string(b), "\n") {
		if ln = strings.TrimSpace(ln); ln != "" && !strings.HasPrefix(ln, "#") {
			m[ln] = true
		}
	}
	return m
}

// tryReplay: replay drivers per contract shape live in replay.go.
func tryReplay(prop string, w *oblResult, model string, rep map[string]interface{}) bool {
	return replayModel(prop, w, model, rep)
}

// implResults: behavioural subtyping - every implementation in /repo of an
// interface method whose contract says `impls` is verified against it.
func implResults(p *Program, key string, k *Contract, only string) []*FuncResult {
	var out []*FuncResult
	parts := strings.SplitN(k.Name, ".", 2) // Iface.Method
	pkg := p.pkgs[k.Pkg]
	if pkg == nil || len(parts) != 2 {
		return nil
	}
	o := pkg.Pkg.Scope().Lookup(parts[0])
	if o == nil {
		return nil
	}
	it, ok := o.Type().Underlying().(*types.Interface)
	if !ok {
		return nil
	}
	k.IfaceType = o.Type()
	for i := 0; i < it.NumMethods(); i++ {
		if it.Method(i).Name() == parts[1] {
			k.IfaceSig = it.Method(i).Type().(*types.Signature)
		}
	}
	var names []string
	for _, name := range pkg.Pkg.Scope().Names() {
		names = append(names, name)
	}
	sort.Strings(names)
	for _, name := range names {
		tn, ok := pkg.Pkg.Scope().Lookup(name).(*types.TypeName)
		if !ok || types.IsInterface(tn.Type()) {
			continue
		}
		for _, t := range []types.Type{tn.Type(), types.NewPointer(tn.Type())} {
			if !types.Implements(t, it) {
				continue
			}
			sel := p.prog.MethodSets.MethodSet(t).Lookup(pkg.Pkg, parts[1])
			if sel == nil {
				continue
			}
			fn := p.prog.MethodValue(sel)
			if fn == nil || fn.Synthetic != "" && !strings.Contains(fn.Synthetic, "wrapper") {
				continue
			}
			ikey := "impl:" + funcKey(fn) + "=>" + k.Name
			if only != "" && !strings.Contains(ikey, only) {
				break
			}
			kk := *k
			out = append(out, VerifyFunc(p, ikey, fn, &kk))
			break
		}
	}
	return out
}

// resolveMethod finds promoted methods (synthetic wrappers), "(*T).m" / "(T).m".
func (p *Program) resolveMethod(pkgName, name string) *ssa.Function {
	pkg := p.pkgs[pkgName]
	if pkg == nil || !strings.HasPrefix(name, "(") {
		return nil
	}
	cp := strings.Index(name, ").")
	if cp < 0 {
		return nil
	}
	tn, m := name[1:cp], name[cp+2:]
	ptr := strings.HasPrefix(tn, "*")
	tn = strings.TrimPrefix(tn, "*")
	o, ok := pkg.Pkg.Scope().Lookup(tn).(*types.TypeName)
	if !ok {
		return nil
	}
	var t types.Type = o.Type()
	if ptr {
		t = types.NewPointer(t)
	}
	sel := p.prog.MethodSets.MethodSet(t).Lookup(pkg.Pkg, m)
	if sel == nil {
		return nil
	}
	return p.prog.MethodValue(sel)
}

// onlyMissingContracts: the function is outside the verified subset only
// because it calls something that has no contract (e.g. a library function
// introduced by a refactoring) - as opposed to its contract no longer
// matching the code.
func onlyMissingContracts(reasons []string) bool {
	for _, r := range reasons {
		if !strings.Contains(r, "without contract") && !strings.Contains(r, "without interface contract") {
			return false
		}
	}
	return len(reasons) > 0
}
