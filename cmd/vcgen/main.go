package main

import (
	"fmt"
	"golang.org/x/tools/go/packages"
	"golang.org/x/tools/go/ssa"
	"golang.org/x/tools/go/ssa/ssautil"
)

func main() {
	cfg := &packages.Config{Mode: packages.LoadAllSyntax, Dir: "/repo", BuildFlags: []string{"-tags=verif"}}
	pkgs, err := packages.Load(cfg, "./p9")
	if err != nil {
		panic(err)
	}
	prog, _ := ssautil.AllPackages(pkgs, ssa.BuilderMode(0))
	prog.Build()
	fmt.Println(len(pkgs))
}
