package main

// SMT context: declarations, sequential definitions, sort mapping for Go types.

import (
	"fmt"
	"go/types"
	"regexp"
	"sort"
	"strings"
)

// Ctx accumulates one function's verification context. decls go to the top of
// every query; body is a sequence of definitions/assertions in program order,
// an obligation uses the prefix of body that existed when it was raised.
type Ctx struct {
	sumlensAx bool
	countersUsed   map[string]bool
	countersBumped map[string]bool
	decls    []string
	declSet  map[string]bool
	body     []string
	nfresh   int
	sortMemo map[string]string
	compSort map[string]string // heap/ghost component -> sort
	typeTags map[string]int    // concrete type string -> dynamic type tag
	tagTypes []types.Type
	strLits  map[string]string // literal -> const name
	strOrder []string
	unsupported []string
	assumptions map[string]bool // assumed contracts / trusted facts actually used
	implIfaces  map[string]types.Type
	constComps  map[string]bool // components that never change (constglobal)
	lazy        []lazyAxiom
	nbase       int
	ptrComps    map[string]string   // heap components holding references: name -> "field" | "map:<keysort>"
	prog     *Program
}

type lazyAxiom struct{ trigger, text string }

// entryClosureAxioms: every reference stored in the heap at entry exists at
// entry (is <= $top@in).
func (c *Ctx) entryClosureAxioms(text string) []string {
	if _, ok := c.compSort["$top"]; !ok {
		return nil
	}
	var names []string
	for n := range c.ptrComps {
		names = append(names, n)
	}
	sort.Strings(names)
	top := c.entryName("$top")
	var out []string
	for _, n := range names {
		en := c.entryName(n)
		if !strings.Contains(text, en) {
			continue
		}
		kind := c.ptrComps[n]
		if kind == "field" {
			out = append(out, fmt.Sprintf("(assert (forall ((x Int)) (! (<= (select %s x) %s) :pattern ((select %s x)))))", en, top, en))
		} else if kind == "slicefield" {
			out = append(out, fmt.Sprintf("(assert (forall ((x Int)) (! (<= (s.arr (select %s x)) %s) :pattern ((select %s x)))))", en, top, en))
		} else if kind == "ifacefield" {
			out = append(out, fmt.Sprintf("(assert (forall ((x Int)) (! (<= (i.val (select %s x)) %s) :pattern ((select %s x)))))", en, top, en))
		} else if kind == "mapkey" {
			out = append(out, fmt.Sprintf("(assert (forall ((m Int) (k Int)) (! (=> (select (select %s m) k) (<= k %s)) :pattern ((select (select %s m) k)))))", en, top, en))
		} else {
			ks := strings.TrimPrefix(kind, "map:")
			out = append(out, fmt.Sprintf("(assert (forall ((m Int) (k %s)) (! (<= (select (select %s m) k) %s) :pattern ((select (select %s m) k)))))", ks, en, top, en))
		}
	}
	return out
}

func NewCtx(p *Program) *Ctx {
	c := &Ctx{declSet: map[string]bool{}, sortMemo: map[string]string{}, compSort: map[string]string{},
		typeTags: map[string]int{}, strLits: map[string]string{}, assumptions: map[string]bool{}, implIfaces: map[string]types.Type{}, constComps: map[string]bool{}, ptrComps: map[string]string{}, prog: p}
	c.decls = append(c.decls,
		"(declare-sort GStr 0)",
		"(declare-fun gs.len (GStr) (_ BitVec 64))",
		"(declare-fun gs.at (GStr (_ BitVec 64)) (_ BitVec 8))",
		"(declare-datatypes ((Slice 0)) (((mk-slice (s.arr Int) (s.off (_ BitVec 64)) (s.len (_ BitVec 64)) (s.cap (_ BitVec 64))))))",
		"(declare-datatypes ((Iface 0)) (((mk-iface (i.type Int) (i.val Int)))))",
		"(declare-datatypes ((MuId 0)) (((mk-mu (mu.tag Int) (mu.base Int)))))",
		"(declare-sort BSeq 0)",
		"(declare-fun bq.nil () BSeq)",
		"(declare-fun bq.snoc (BSeq (_ BitVec 8)) BSeq)",
		"(declare-fun bq.snocraw (BSeq GStr) BSeq)",
		"(declare-fun bq.cons ((_ BitVec 8) BSeq) BSeq)",
		"(declare-fun bq.consraw (GStr BSeq) BSeq)",
		"(declare-fun bq.head (BSeq) (_ BitVec 8))",
		"(declare-fun bq.tail (BSeq) BSeq)",
		"(declare-fun bq.rawhead (BSeq (_ BitVec 64)) GStr)",
		"(declare-fun bq.rawtail (BSeq (_ BitVec 64)) BSeq)",
	)
	c.nbase = len(c.decls)
	// axioms that are only emitted when the query mentions their symbols
	c.lazy = append(c.lazy,
		lazyAxiom{"gs.len", "(assert (forall ((s GStr)) (! (bvsge (gs.len s) #x0000000000000000) :pattern ((gs.len s)))))"},
		lazyAxiom{"bq.cons ", "(assert (forall ((a (_ BitVec 8)) (r BSeq)) (! (and (= (bq.head (bq.cons a r)) a) (= (bq.tail (bq.cons a r)) r)) :pattern ((bq.cons a r)))))"},
		lazyAxiom{"bq.consraw", "(assert (forall ((s GStr) (r BSeq)) (! (and (= (bq.rawhead (bq.consraw s r) (gs.len s)) s) (= (bq.rawtail (bq.consraw s r) (gs.len s)) r)) :pattern ((bq.consraw s r)))))"},
	)
	return c
}

func (c *Ctx) Decl(key, text string) {
	if c.declSet[key] {
		return
	}
	c.declSet[key] = true
	c.decls = append(c.decls, text)
}

func q(name string) string {
	// quoted symbol; '|' and '\' are not allowed inside
	name = strings.NewReplacer("|", "!", "\\", "!").Replace(name)
	return "|" + name + "|"
}

func (c *Ctx) Fresh(prefix, srt string) string {
	c.nfresh++
	n := q(fmt.Sprintf("%s#%d", prefix, c.nfresh))
	c.body = append(c.body, fmt.Sprintf("(declare-const %s %s)", n, srt))
	return n
}

func (c *Ctx) Define(prefix, srt, term string) string {
	// keep small atoms as they are
	if len(term) < 24 && !strings.ContainsAny(term, " ") {
		return term
	}
	c.nfresh++
	n := q(fmt.Sprintf("%s#%d", prefix, c.nfresh))
	c.body = append(c.body, fmt.Sprintf("(define-fun %s () %s %s)", n, srt, term))
	return n
}

func (c *Ctx) Assert(t string) {
	if t == "true" {
		return
	}
	c.body = append(c.body, "(assert "+t+")")
}

func (c *Ctx) Mark() int { return len(c.body) }

// counters named by ncalls("...") in specifications / incremented by calls
// (a name that matches no call of the function is a contract error)
func (c *Ctx) checkCounters() {
	for n := range c.countersUsed {
		if !c.countersBumped[n] {
			c.Unsupported("ncalls(%q): the function under verification contains no call with that name", strings.TrimPrefix(n, "$c."))
		}
	}
}

func (c *Ctx) Unsupported(format string, a ...interface{}) {
	c.unsupported = append(c.unsupported, fmt.Sprintf(format, a...))
}

func (c *Ctx) Assume(s string) { c.assumptions[s] = true }

// ---------- sorts ----------

func bvSort(n int) string { return fmt.Sprintf("(_ BitVec %d)", n) }

func intWidth(b *types.Basic) (int, bool) { // width, signed
	switch b.Kind() {
	case types.Int8:
		return 8, true
	case types.Int16:
		return 16, true
	case types.Int32:
		return 32, true
	case types.Int64, types.Int, types.UntypedInt, types.UntypedRune:
		return 64, true
	case types.Uint8:
		return 8, false
	case types.Uint16:
		return 16, false
	case types.Uint32:
		return 32, false
	case types.Uint64, types.Uint, types.Uintptr:
		return 64, false
	}
	return 0, false
}

func isInt(t types.Type) (int, bool, bool) {
	if b, ok := t.Underlying().(*types.Basic); ok {
		w, s := intWidth(b)
		if w != 0 {
			return w, s, true
		}
	}
	return 0, false, false
}

var byteRe = regexp.MustCompile(`\bbyte\b`)
var runeRe = regexp.MustCompile(`\brune\b`)

func typeKey(t types.Type) string {
	s := types.TypeString(t, func(p *types.Package) string { return p.Name() })
	// byte/uint8 and rune/int32 are identical types
	s = byteRe.ReplaceAllString(s, "uint8")
	s = runeRe.ReplaceAllString(s, "int32")
	return s
}

func sanitize(s string) string {
	r := strings.NewReplacer(" ", "_", "|", "!", "\\", "!", "(", "<", ")", ">", ";", ",", "\"", "'", "\n", "_", "\t", "_")
	return r.Replace(s)
}

func (c *Ctx) Sort(t types.Type) string {
	k := typeKey(t)
	if s, ok := c.sortMemo[k]; ok {
		return s
	}
	s := c.sort1(t)
	c.sortMemo[k] = s
	return s
}

func (c *Ctx) sort1(t types.Type) string {
	switch u := t.Underlying().(type) {
	case *types.Basic:
		if w, _ := intWidth(u); w != 0 {
			return bvSort(w)
		}
		switch u.Kind() {
		case types.Bool, types.UntypedBool:
			return "Bool"
		case types.String, types.UntypedString:
			return "GStr"
		case types.UnsafePointer, types.UntypedNil:
			return "Int"
		case types.Float32, types.Float64, types.UntypedFloat:
			c.Decl("sort Float", "(declare-sort Float 0)")
			return "Float"
		}
	case *types.Pointer, *types.Map, *types.Chan, *types.Signature:
		return "Int"
	case *types.Slice:
		return "Slice"
	case *types.Interface:
		return "Iface"
	case *types.Array:
		return fmt.Sprintf("(Array (_ BitVec 64) %s)", c.Sort(u.Elem()))
	case *types.Struct:
		name := "S." + sanitize(typeKey(t))
		qn := q(name)
		// declare nested first
		var fs []string
		for i := 0; i < u.NumFields(); i++ {
			f := u.Field(i)
			fs = append(fs, fmt.Sprintf("(%s %s)", q(name+"."+fieldName(u, i)), c.Sort(f.Type())))
		}
		if len(fs) == 0 {
			c.Decl("sort "+name, fmt.Sprintf("(declare-datatypes ((%s 0)) (((%s))))", qn, q("mk."+name)))
		} else {
			c.Decl("sort "+name, fmt.Sprintf("(declare-datatypes ((%s 0)) (((%s %s))))", qn, q("mk."+name), strings.Join(fs, " ")))
		}
		return qn
	case *types.Tuple:
		return "Tuple!"
	}
	c.Unsupported("sort of %s", t)
	return "Int"
}

// fieldName: blank fields get positional names
func fieldName(st *types.Struct, i int) string {
	n := st.Field(i).Name()
	if n == "_" || n == "" {
		return fmt.Sprintf("_%d", i)
	}
	return n
}

// struct helpers
func structName(t types.Type) string { return "S." + sanitize(typeKey(t)) }

func (c *Ctx) StructSel(t types.Type, i int, v string) string {
	st := t.Underlying().(*types.Struct)
	c.Sort(t)
	return fmt.Sprintf("(%s %s)", q(structName(t)+"."+fieldName(st, i)), v)
}

func (c *Ctx) StructMk(t types.Type, fields []string) string {
	c.Sort(t)
	if len(fields) == 0 {
		return q("mk." + structName(t))
	}
	return fmt.Sprintf("(%s %s)", q("mk."+structName(t)), strings.Join(fields, " "))
}

func (c *Ctx) StructUpd(t types.Type, i int, v, nv string) string {
	st := t.Underlying().(*types.Struct)
	fs := make([]string, st.NumFields())
	for j := range fs {
		if j == i {
			fs[j] = nv
		} else {
			fs[j] = c.StructSel(t, j, v)
		}
	}
	return c.StructMk(t, fs)
}

func bvLit(w int, v uint64) string {
	if w%4 == 0 {
		return fmt.Sprintf("#x%0*x", w/4, v&mask(w))
	}
	return fmt.Sprintf("(_ bv%d %d)", v&mask(w), w)
}

func mask(w int) uint64 {
	if w >= 64 {
		return ^uint64(0)
	}
	return (uint64(1) << uint(w)) - 1
}

func (c *Ctx) Zero(t types.Type) string {
	switch u := t.Underlying().(type) {
	case *types.Basic:
		if w, _ := intWidth(u); w != 0 {
			return bvLit(w, 0)
		}
		switch u.Kind() {
		case types.Bool, types.UntypedBool:
			return "false"
		case types.String, types.UntypedString:
			return c.StrLit("")
		case types.UnsafePointer, types.UntypedNil:
			return "0"
		}
	case *types.Pointer, *types.Map, *types.Chan, *types.Signature:
		return "0"
	case *types.Slice:
		return "(mk-slice 0 #x0000000000000000 #x0000000000000000 #x0000000000000000)"
	case *types.Interface:
		return "(mk-iface 0 0)"
	case *types.Struct:
		fs := make([]string, u.NumFields())
		for i := range fs {
			fs[i] = c.Zero(u.Field(i).Type())
		}
		return c.StructMk(t, fs)
	case *types.Array:
		return fmt.Sprintf("((as const %s) %s)", c.Sort(t), c.Zero(u.Elem()))
	}
	c.Unsupported("zero of %s", t)
	return "0"
}

// StrLit returns the constant for a string literal, with its length and
// characters axiomatised; distinct literals are asserted distinct.
func (c *Ctx) StrLit(s string) string {
	if n, ok := c.strLits[s]; ok {
		return n
	}
	n := q(fmt.Sprintf("str%d:%s", len(c.strLits), sanitize(truncate(s, 24))))
	c.strLits[s] = n
	c.strOrder = append(c.strOrder, s)
	c.decls = append(c.decls, fmt.Sprintf("(declare-const %s GStr)", n))
	c.decls = append(c.decls, fmt.Sprintf("(assert (= (gs.len %s) %s))", n, bvLit(64, uint64(len(s)))))
	if len(s) <= 64 {
		for i := 0; i < len(s); i++ {
			c.decls = append(c.decls, fmt.Sprintf("(assert (= (gs.at %s %s) %s))", n, bvLit(64, uint64(i)), bvLit(8, uint64(s[i]))))
		}
	}
	return n
}

func truncate(s string, n int) string {
	if len(s) > n {
		return s[:n]
	}
	return s
}

// strAxioms are emitted at query time: pairwise distinctness of literals and
// "a string with the same length and characters as a literal is that literal"
// (extensionality restricted to literals, which is all the code compares
// against).
func (c *Ctx) strAxioms() []string {
	var out []string
	if len(c.strOrder) > 1 {
		var ns []string
		for _, s := range c.strOrder {
			ns = append(ns, c.strLits[s])
		}
		out = append(out, "(assert (distinct "+strings.Join(ns, " ")+"))")
	}
	for _, s := range c.strOrder {
		if len(s) > 16 {
			continue
		}
		n := c.strLits[s]
		conj := []string{fmt.Sprintf("(= (gs.len x) %s)", bvLit(64, uint64(len(s))))}
		for i := 0; i < len(s); i++ {
			conj = append(conj, fmt.Sprintf("(= (gs.at x %s) %s)", bvLit(64, uint64(i)), bvLit(8, uint64(s[i]))))
		}
		out = append(out, fmt.Sprintf("(assert (forall ((x GStr)) (! (=> (and %s) (= x %s)) :pattern ((gs.len x)))))", strings.Join(conj, " "), n))
	}
	return out
}

// TypeTag gives the dynamic type tag of a concrete type.
func (c *Ctx) TypeTag(t types.Type) string {
	k := typeKey(t)
	if n, ok := c.typeTags[k]; ok {
		return fmt.Sprint(n)
	}
	n := len(c.typeTags) + 1
	c.typeTags[k] = n
	c.tagTypes = append(c.tagTypes, t)
	return fmt.Sprint(n)
}

// Box/Unbox for non-pointer concrete values stored in interfaces.
func (c *Ctx) Box(t types.Type, v string) string {
	switch t.Underlying().(type) {
	case *types.Pointer, *types.Map, *types.Chan, *types.Signature:
		return v
	}
	s := c.Sort(t)
	name := "box." + sanitize(typeKey(t))
	if !c.declSet[name] {
		c.Decl(name, fmt.Sprintf("(declare-fun %s (%s) Int)\n(declare-fun %s (Int) %s)", q(name), s, q("un"+name), s))
		ax := fmt.Sprintf("(assert (forall ((x %s)) (! (= (%s (%s x)) x) :pattern ((%s x)))))", s, q("un"+name), q(name), q(name))
		c.lazy = append(c.lazy, lazyAxiom{q("un" + name), ax})
		if _, isStruct := t.Underlying().(*types.Struct); isStruct {
			// struct values as interface (map) keys: boxing is injective
			// even when the query never unboxes
			c.lazy = append(c.lazy, lazyAxiom{q(name), ax})
		}
	}
	return fmt.Sprintf("(%s %s)", q(name), v)
}

func (c *Ctx) Unbox(t types.Type, v string) string {
	switch t.Underlying().(type) {
	case *types.Pointer, *types.Map, *types.Chan, *types.Signature:
		return v
	}
	c.Box(t, c.Zero(t))
	name := "box." + sanitize(typeKey(t))
	return fmt.Sprintf("(%s %s)", q("un"+name), v)
}

// ---------- state ----------

// State maps heap / ghost components to their current SMT term; a missing
// component still has its value at entry of the function under verification.
type State struct {
	m     map[string]string
	epoch int // > 0 after a havoc-all: components first used later resolve to that epoch's constant
	ghostWild []string // ghost prefixes havoc'd by a wildcard modifies ("$n.*"): later-declared ones are havoc'd on first use
}

func NewState() *State { return &State{m: map[string]string{}} }

func (s *State) Clone() *State {
	n := NewState()
	for k, v := range s.m {
		n.m[k] = v
	}
	n.epoch = s.epoch
	n.ghostWild = append([]string{}, s.ghostWild...)
	return n
}

func (c *Ctx) entryName(comp string) string { return q(comp + "@in") }

func (c *Ctx) DeclComp(comp, srt string) {
	if old, ok := c.compSort[comp]; ok {
		if old != srt {
			c.Unsupported("component %s used at sorts %s and %s", comp, old, srt)
		}
		return
	}
	c.compSort[comp] = srt
	c.Decl("comp "+comp, fmt.Sprintf("(declare-const %s %s)", c.entryName(comp), srt))
	if strings.HasPrefix(comp, "$c.") {
		// per-invocation call counters start at zero
		c.Decl("zero "+comp, fmt.Sprintf("(assert (= %s 0))", c.entryName(comp)))
	}
}

func (c *Ctx) Get(s *State, comp string) string {
	if v, ok := s.m[comp]; ok {
		return v
	}
	if _, ok := c.compSort[comp]; !ok {
		panic("undeclared component " + comp)
	}
	for _, w := range s.ghostWild {
		if strings.HasPrefix(comp, w) {
			c.Havoc(s, comp)
			return s.m[comp]
		}
	}
	if s.epoch > 0 && !strings.HasPrefix(comp, "$") && !strings.HasPrefix(comp, "L.") && !c.constComps[comp] {
		n := q(fmt.Sprintf("%s@ep%d", comp, s.epoch))
		c.Decl("epoch "+n, fmt.Sprintf("(declare-const %s %s)", n, c.compSort[comp]))
		return n
	}
	return c.entryName(comp)
}

func (c *Ctx) Set(s *State, comp, term string) {
	s.m[comp] = c.Define(comp, c.compSort[comp], term)
}

func (c *Ctx) Havoc(s *State, comp string) {
	if c.constComps[comp] {
		return
	}
	s.m[comp] = c.Fresh(comp+"@hv", c.compSort[comp])
}

// Merge joins states under pairwise exclusive conditions.
func (c *Ctx) Merge(conds []string, states []*State) *State {
	if len(states) == 1 {
		return states[0].Clone()
	}
	keys := map[string]bool{}
	for _, s := range states {
		for k := range s.m {
			keys[k] = true
		}
	}
	ep := states[0].epoch
	for _, s := range states {
		if s.epoch != ep {
			ep = -1
		}
	}
	if ep == -1 {
		for k := range c.compSort {
			keys[k] = true
		}
	}
	var ks []string
	for k := range keys {
		ks = append(ks, k)
	}
	sort.Strings(ks)
	out := NewState()
	for _, k := range ks {
		first := c.Get(states[0], k)
		same := true
		for _, s := range states[1:] {
			if c.Get(s, k) != first {
				same = false
			}
		}
		if same {
			out.m[k] = first
			continue
		}
		t := c.Get(states[len(states)-1], k)
		for i := len(states) - 2; i >= 0; i-- {
			t = fmt.Sprintf("(ite %s %s %s)", conds[i], c.Get(states[i], k), t)
		}
		out.m[k] = c.Define(k+"@j", c.compSort[k], t)
	}
	for _, st := range states {
		for _, w := range st.ghostWild {
			dup := false
			for _, x := range out.ghostWild {
				if x == w {
					dup = true
				}
			}
			if !dup {
				out.ghostWild = append(out.ghostWild, w)
			}
		}
	}
	out.epoch = ep
	if ep == -1 {
		c.nfresh++
		out.epoch = c.nfresh
	}
	return out
}

func and(xs ...string) string {
	var ys []string
	for _, x := range xs {
		if x == "true" || x == "" {
			continue
		}
		if x == "false" {
			return "false"
		}
		ys = append(ys, x)
	}
	switch len(ys) {
	case 0:
		return "true"
	case 1:
		return ys[0]
	}
	return "(and " + strings.Join(ys, " ") + ")"
}

func or(xs ...string) string {
	var ys []string
	for _, x := range xs {
		if x == "false" || x == "" {
			continue
		}
		if x == "true" {
			return "true"
		}
		ys = append(ys, x)
	}
	switch len(ys) {
	case 0:
		return "false"
	case 1:
		return ys[0]
	}
	return "(or " + strings.Join(ys, " ") + ")"
}

func not(x string) string {
	switch x {
	case "true":
		return "false"
	case "false":
		return "true"
	}
	if strings.HasPrefix(x, "(not ") && balanced(x[5:len(x)-1]) {
		return x[5 : len(x)-1]
	}
	return "(not " + x + ")"
}

func balanced(s string) bool {
	d := 0
	inq := false
	for _, ch := range s {
		if ch == '|' {
			inq = !inq
		}
		if inq {
			continue
		}
		if ch == '(' {
			d++
		} else if ch == ')' {
			d--
			if d < 0 {
				return false
			}
		}
	}
	return d == 0
}

func implies(a, b string) string {
	if a == "true" {
		return b
	}
	if b == "true" {
		return "true"
	}
	return "(=> " + a + " " + b + ")"
}

func ite(c, a, b string) string {
	if c == "true" {
		return a
	}
	if c == "false" {
		return b
	}
	if a == b {
		return a
	}
	return "(ite " + c + " " + a + " " + b + ")"
}

func eq(a, b string) string {
	if a == b {
		return "true"
	}
	return "(= " + a + " " + b + ")"
}

func sel(a, i string) string    { return "(select " + a + " " + i + ")" }
func sto(a, i, v string) string { return "(store " + a + " " + i + " " + v + ")" }
