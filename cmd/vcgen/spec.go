package main

// Evaluation of contract expressions (Go expression syntax, parsed with
// go/parser) into SMT terms over the symbolic state.

import (
	"fmt"
	"go/ast"
	"go/constant"
	"go/token"
	"go/types"
	"regexp"
	"strconv"
	"strings"

	"golang.org/x/tools/go/ssa"
)

type TV struct {
	T     string
	Ty    types.Type
	Const constant.Value // untyped constant (Ty == nil)
	A     *Addr
	V     *Val
}

type Env struct {
	e    *Eval
	pkg  *ssa.Package
	st   *State
	old  *State
	vars map[string]TV
	loopPre *State
	skolem  bool // evaluating the top of a proof goal: leading foralls become fresh constants
	convTo  types.Type // target of conv(e) inside a composite literal field
}

func (e *Eval) newEnv(pkg *ssa.Package, st, old *State) *Env {
	return &Env{e: e, pkg: pkg, st: st, old: old, vars: map[string]TV{}}
}

func (env *Env) bind(name string, v Val, t types.Type) {
	if name == "" || name == "_" {
		return
	}
	vv := v
	env.vars[name] = TV{T: v.T, Ty: t, A: v.A, V: &vv}
}

func (env *Env) bindIfAbsent(name string, v Val, t types.Type) {
	if _, ok := env.vars[name]; !ok {
		env.bind(name, v, t)
	}
}

func (env *Env) noSkolem() *Env {
	if !env.skolem {
		return env
	}
	n := *env
	n.skolem = false
	return &n
}

func (env *Env) with(st *State) *Env {
	n := *env
	n.st = st
	return &n
}

func (env *Env) fail(format string, a ...interface{}) TV {
	env.e.c.Unsupported("spec: "+format, a...)
	return TV{T: "false", Ty: types.Typ[types.Bool]}
}

func (env *Env) evalBool(x ast.Expr) string {
	tv := env.eval(x)
	if tv.Ty == nil || env.e.c.Sort(tv.Ty) != "Bool" {
		if tv.Const != nil && tv.Const.Kind() == constant.Bool {
			if constant.BoolVal(tv.Const) {
				return "true"
			}
			return "false"
		}
		env.fail("expression %s is not boolean", exprString(x))
		return "false"
	}
	return tv.T
}

func exprString(x ast.Expr) string { return types.ExprString(x) }

// coerce an untyped constant to type t
func (env *Env) coerce(tv TV, t types.Type) TV {
	if tv.Ty != nil || tv.Const == nil {
		return tv
	}
	if t == nil {
		return env.defaultType(tv)
	}
	c := env.e.c
	if w, _, ok := isInt(t); ok {
		if i, ok := constant.Int64Val(constant.ToInt(tv.Const)); ok {
			return TV{T: bvLit(w, uint64(i)), Ty: t}
		}
		if i, ok := constant.Uint64Val(constant.ToInt(tv.Const)); ok {
			return TV{T: bvLit(w, i), Ty: t}
		}
	}
	switch c.Sort(t) {
	case "Bool":
		if constant.BoolVal(tv.Const) {
			return TV{T: "true", Ty: t}
		}
		return TV{T: "false", Ty: t}
	case "GStr":
		return TV{T: c.StrLit(constant.StringVal(tv.Const)), Ty: t}
	case "Int":
		if i, ok := constant.Int64Val(constant.ToInt(tv.Const)); ok {
			return TV{T: smtInt(i), Ty: t}
		}
	}
	return env.fail("cannot use constant %s as %s", tv.Const, t)
}

func smtInt(i int64) string {
	if i < 0 {
		return fmt.Sprintf("(- %d)", -i)
	}
	return fmt.Sprint(i)
}

func (env *Env) defaultType(tv TV) TV {
	if tv.Ty != nil || tv.Const == nil {
		return tv
	}
	switch tv.Const.Kind() {
	case constant.Bool:
		return env.coerce(tv, types.Typ[types.Bool])
	case constant.String:
		return env.coerce(tv, types.Typ[types.String])
	}
	return env.coerce(tv, types.Typ[types.Int])
}

var ifaceMethodRe = regexp.MustCompile(`^[A-Z][A-Za-z0-9]*\.[A-Z][A-Za-z0-9]*$`)

var ghostIntType = types.NewNamed(types.NewTypeName(token.NoPos, nil, "mathint", nil), types.Typ[types.UnsafePointer], nil)
var seqType = types.NewNamed(types.NewTypeName(token.NoPos, nil, "seq", nil), types.NewStruct(nil, nil), nil)

// ghost lists (logical variables of list-carrying messages)
var strsType = types.NewNamed(types.NewTypeName(token.NoPos, nil, "strs", nil), types.NewStruct(nil, nil), nil)
var qidsType = types.NewNamed(types.NewTypeName(token.NoPos, nil, "qidlist", nil), types.NewStruct(nil, nil), nil)

func isMathInt(t types.Type) bool { return t == ghostIntType }

func (env *Env) sortOf(t types.Type) string {
	if t == ghostIntType {
		return "Int"
	}
	if t == seqType {
		return "BSeq"
	}
	if t == strsType {
		return "(Array (_ BitVec 64) GStr)"
	}
	if t == qidsType {
		if qt := env.lookupType("p9.QID"); qt != nil {
			return "(Array (_ BitVec 64) " + env.e.c.Sort(qt) + ")"
		}
	}
	return env.e.c.Sort(t)
}

func (env *Env) lookupType(name string) types.Type {
	switch name {
	case "int":
		return types.Typ[types.Int]
	case "int8":
		return types.Typ[types.Int8]
	case "int16":
		return types.Typ[types.Int16]
	case "int32":
		return types.Typ[types.Int32]
	case "int64":
		return types.Typ[types.Int64]
	case "uint":
		return types.Typ[types.Uint]
	case "uint8", "byte":
		return types.Typ[types.Uint8]
	case "uint16":
		return types.Typ[types.Uint16]
	case "uint32":
		return types.Typ[types.Uint32]
	case "uint64":
		return types.Typ[types.Uint64]
	case "uintptr":
		return types.Typ[types.Uintptr]
	case "bool":
		return types.Typ[types.Bool]
	case "string":
		return types.Typ[types.String]
	case "error":
		return types.Universe.Lookup("error").Type()
	case "any", "interface{}":
		return types.Universe.Lookup("any").Type()
	case "mathint":
		return ghostIntType
	case "seq":
		return seqType
	case "strs":
		return strsType
	case "qidlist":
		return qidsType
	}
	if strings.HasPrefix(name, "*") {
		if t := env.lookupType(name[1:]); t != nil {
			return types.NewPointer(t)
		}
		return nil
	}
	if strings.HasPrefix(name, "[]") {
		if t := env.lookupType(name[2:]); t != nil {
			return types.NewSlice(t)
		}
		return nil
	}
	if i := strings.IndexByte(name, '.'); i > 0 {
		if p, ok := env.e.p.pkgs[name[:i]]; ok {
			if o := p.Pkg.Scope().Lookup(name[i+1:]); o != nil {
				if tn, ok := o.(*types.TypeName); ok {
					return tn.Type()
				}
			}
		}
		for _, tp := range env.e.p.tpkgs {
			if tp.Name() == name[:i] {
				if o := tp.Scope().Lookup(name[i+1:]); o != nil {
					if tn, ok := o.(*types.TypeName); ok {
						return tn.Type()
					}
				}
			}
		}
		return nil
	}
	if env.pkg != nil {
		if o := env.pkg.Pkg.Scope().Lookup(name); o != nil {
			if tn, ok := o.(*types.TypeName); ok {
				return tn.Type()
			}
		}
	}
	return nil
}

func (env *Env) typeExpr(x ast.Expr) types.Type {
	switch t := x.(type) {
	case *ast.Ident:
		return env.lookupType(t.Name)
	case *ast.SelectorExpr:
		if id, ok := t.X.(*ast.Ident); ok {
			return env.lookupType(id.Name + "." + t.Sel.Name)
		}
	case *ast.StarExpr:
		if et := env.typeExpr(t.X); et != nil {
			return types.NewPointer(et)
		}
	case *ast.ArrayType:
		if t.Len == nil {
			if et := env.typeExpr(t.Elt); et != nil {
				return types.NewSlice(et)
			}
		}
	case *ast.ParenExpr:
		return env.typeExpr(t.X)
	case *ast.MapType:
		k, v := env.typeExpr(t.Key), env.typeExpr(t.Value)
		if k != nil && v != nil {
			return types.NewMap(k, v)
		}
	case *ast.StructType:
		if t.Fields == nil || len(t.Fields.List) == 0 {
			return types.NewStruct(nil, nil)
		}
	}
	return nil
}

func (env *Env) lookupObj(pkg *types.Package, name string) (TV, bool) {
	o := pkg.Scope().Lookup(name)
	if o == nil {
		return TV{}, false
	}
	switch ob := o.(type) {
	case *types.Const:
		tv := TV{Const: ob.Val()}
		if b, ok := ob.Type().Underlying().(*types.Basic); ok && b.Info()&types.IsUntyped != 0 {
			return tv, true
		}
		return env.coerce(tv, ob.Type()), true
	case *types.Var:
		comp := "G." + pkg.Name() + "." + name
		env.e.c.DeclComp(comp, env.e.c.Sort(ob.Type()))
		a := &Addr{Kind: "cell", Comp: comp, Typ: ob.Type(), Root: ob.Type()}
		return TV{T: env.e.loadAddr(env.st, a), Ty: ob.Type(), A: a}, true
	}
	return TV{}, false
}

func (env *Env) eval(x ast.Expr) TV {
	c := env.e.c
	switch n := x.(type) {
	case *ast.ParenExpr:
		return env.eval(n.X)
	case *ast.BasicLit:
		switch n.Kind {
		case token.INT:
			return TV{Const: constant.MakeFromLiteral(n.Value, token.INT, 0)}
		case token.STRING:
			s, _ := strconv.Unquote(n.Value)
			return TV{Const: constant.MakeString(s)}
		case token.CHAR:
			return TV{Const: constant.MakeFromLiteral(n.Value, token.CHAR, 0)}
		}
	case *ast.Ident:
		switch n.Name {
		case "true":
			return TV{T: "true", Ty: types.Typ[types.Bool]}
		case "false":
			return TV{T: "false", Ty: types.Typ[types.Bool]}
		case "nil":
			return TV{Const: constant.MakeUnknown(), T: "nil"}
		}
		if tv, ok := env.vars[n.Name]; ok {
			if tv.A != nil && tv.T == "" {
				return tv
			}
			return tv
		}
		if env.pkg != nil {
			if tv, ok := env.lookupObj(env.pkg.Pkg, n.Name); ok {
				return tv
			}
		}
		return env.fail("unknown identifier %s", n.Name)
	case *ast.SelectorExpr:
		if id, ok := n.X.(*ast.Ident); ok {
			if _, isVar := env.vars[id.Name]; !isVar {
				// package-qualified
				for _, tp := range env.e.p.tpkgs {
					if tp.Name() == id.Name {
						if tv, ok := env.lookupObj(tp, n.Sel.Name); ok {
							return tv
						}
					}
				}
			}
		}
		a := env.evalAddr(x)
		if a != nil {
			return TV{T: env.e.loadAddr(env.st, a), Ty: a.Typ, A: a}
		}
		// field of a struct value
		b := env.eval(n.X)
		if b.Ty != nil {
			if st, ok := b.Ty.Underlying().(*types.Struct); ok {
				for i := 0; i < st.NumFields(); i++ {
					if st.Field(i).Name() == n.Sel.Name {
						return TV{T: c.StructSel(b.Ty, i, b.T), Ty: st.Field(i).Type()}
					}
				}
			}
		}
		return env.fail("cannot select %s", exprString(x))
	case *ast.StarExpr:
		p := env.eval(n.X)
		if p.Ty == nil {
			return env.fail("deref of untyped")
		}
		pt, ok := p.Ty.Underlying().(*types.Pointer)
		if !ok {
			return env.fail("deref of non-pointer %s", exprString(n.X))
		}
		v := Val{T: p.T, A: p.A}
		if p.V != nil {
			v = *p.V
		}
		return TV{T: env.e.load(env.st, v, pt.Elem()), Ty: pt.Elem()}
	case *ast.IndexExpr:
		b := env.eval(n.X)
		if b.Ty == nil {
			return env.fail("index of untyped")
		}
		if b.Ty == strsType || b.Ty == qidsType {
			i := env.coerce(env.eval(n.Index), types.Typ[types.Int])
			i64 := env.e.convert(i.T, i.Ty, types.Typ[types.Int])
			var et types.Type = types.Typ[types.String]
			if b.Ty == qidsType {
				et = env.lookupType("p9.QID")
			}
			return TV{T: sel(b.T, i64), Ty: et}
		}
		switch u := b.Ty.Underlying().(type) {
		case *types.Slice:
			i := env.coerce(env.eval(n.Index), types.Typ[types.Int])
			i64 := env.e.convert(i.T, i.Ty, types.Typ[types.Int])
			return TV{T: sel(sel(c.Get(env.st, env.e.elemComp(u.Elem())), "(s.arr "+b.T+")"), "(bvadd (s.off "+b.T+") "+i64+")"), Ty: u.Elem()}
		case *types.Map:
			k := env.coerce(env.eval(n.Index), u.Key())
			dom, val := env.e.mapComps(u)
			return TV{T: ite(sel(sel(c.Get(env.st, dom), b.T), k.T), sel(sel(c.Get(env.st, val), b.T), k.T), c.Zero(u.Elem())), Ty: u.Elem()}
		case *types.Basic:
			i := env.coerce(env.eval(n.Index), types.Typ[types.Int])
			i64 := env.e.convert(i.T, i.Ty, types.Typ[types.Int])
			return TV{T: "(gs.at " + b.T + " " + i64 + ")", Ty: types.Typ[types.Uint8]}
		}
		return env.fail("cannot index %s", exprString(n.X))
	case *ast.UnaryExpr:
		if n.Op == token.AND {
			if a := env.evalAddr(n.X); a != nil {
				return TV{Ty: types.NewPointer(a.Typ), A: a}
			}
			return env.fail("cannot take the address of %s", exprString(n.X))
		}
		v := env.eval(n.X)
		switch n.Op {
		case token.NOT:
			return TV{T: not(env.noSkolem().evalBool(n.X)), Ty: types.Typ[types.Bool]}
		case token.SUB:
			if v.Ty == nil && v.Const != nil {
				return TV{Const: constant.UnaryOp(token.SUB, v.Const, 0)}
			}
			if isMathInt(v.Ty) {
				return TV{T: "(- " + v.T + ")", Ty: v.Ty}
			}
			return TV{T: "(bvneg " + v.T + ")", Ty: v.Ty}
		case token.XOR:
			v = env.defaultType(v)
			return TV{T: "(bvnot " + v.T + ")", Ty: v.Ty}
		case token.AND:
			// &x.f : the address of a struct-valued field (interior pointer)
			if a := env.evalAddr(n.X); a != nil {
				return TV{Ty: types.NewPointer(a.Typ), A: a}
			}
			return env.fail("cannot take the address of %s", exprString(n.X))
		}
	case *ast.BinaryExpr:
		return env.binary(n)
	case *ast.CallExpr:
		return env.call(n)
	case *ast.CompositeLit:
		t := env.typeExpr(n.Type)
		if t == nil || !isStruct(t) {
			return env.fail("composite literal of unknown struct type %s", exprString(n.Type))
		}
		st := t.Underlying().(*types.Struct)
		fs := make([]string, st.NumFields())
		for i := range fs {
			fs[i] = c.Zero(st.Field(i).Type())
		}
		for _, el := range n.Elts {
			kv, ok := el.(*ast.KeyValueExpr)
			if !ok {
				return env.fail("composite literal needs field names")
			}
			key, _ := kv.Key.(*ast.Ident)
			idx := -1
			for i := 0; i < st.NumFields(); i++ {
				if key != nil && st.Field(i).Name() == key.Name {
					idx = i
				}
			}
			if idx < 0 {
				return env.fail("unknown field in composite literal %s", exprString(kv.Key))
			}
			ft := st.Field(idx).Type()
			// conv(e): e converted to the field's type
			sub := *env
			sub.convTo = ft
			v := sub.eval(kv.Value)
			if v.Ty == nil {
				v = env.coerce(v, ft)
			}
			if env.sortOf(v.Ty) != env.sortOf(ft) {
				return env.fail("field %s: %s is not a %s", key.Name, exprString(kv.Value), ft)
			}
			fs[idx] = v.T
		}
		return TV{T: c.StructMk(t, fs), Ty: t}
	}
	return env.fail("unsupported expression %s", exprString(x))
}

func (env *Env) binary(n *ast.BinaryExpr) TV {
	c := env.e.c
	boolT := types.Typ[types.Bool]
	switch n.Op {
	case token.LAND:
		return TV{T: and(env.evalBool(n.X), env.evalBool(n.Y)), Ty: boolT}
	case token.LOR:
		ns := env.noSkolem()
		return TV{T: or(ns.evalBool(n.X), ns.evalBool(n.Y)), Ty: boolT}
	}
	if env.skolem {
		env = env.noSkolem()
	}
	a, b := env.eval(n.X), env.eval(n.Y)
	// nil comparisons
	if a.T == "nil" || b.T == "nil" {
		o := a
		if a.T == "nil" {
			o = b
		}
		if o.Ty == nil {
			return env.fail("nil compared with untyped")
		}
		var t string
		switch env.e.c.Sort(o.Ty) {
		case "Iface":
			t = eq(o.T, "(mk-iface 0 0)")
		case "Slice":
			t = eq("(s.arr "+o.T+")", "0")
		default:
			t = eq(o.T, "0")
		}
		if n.Op == token.NEQ {
			t = not(t)
		}
		return TV{T: t, Ty: boolT}
	}
	if a.Ty == nil && b.Ty == nil && a.Const != nil && b.Const != nil {
		switch n.Op {
		case token.EQL, token.NEQ, token.LSS, token.LEQ, token.GTR, token.GEQ:
			if constant.Compare(a.Const, n.Op, b.Const) {
				return TV{T: "true", Ty: boolT}
			}
			return TV{T: "false", Ty: boolT}
		case token.SHL, token.SHR:
			s, _ := constant.Uint64Val(b.Const)
			return TV{Const: constant.Shift(a.Const, n.Op, uint(s))}
		}
		return TV{Const: constant.BinaryOp(a.Const, n.Op, b.Const)}
	}
	if n.Op == token.SHL || n.Op == token.SHR {
		a = env.defaultType(a)
		b = env.defaultType(b)
	} else {
		if a.Ty == nil {
			a = env.coerce(a, b.Ty)
		}
		if b.Ty == nil {
			b = env.coerce(b, a.Ty)
		}
	}
	if isMathInt(a.Ty) || isMathInt(b.Ty) {
		ops := map[token.Token]string{token.ADD: "+", token.SUB: "-", token.MUL: "*", token.LSS: "<", token.LEQ: "<=", token.GTR: ">", token.GEQ: ">="}
		switch n.Op {
		case token.EQL:
			return TV{T: eq(a.T, b.T), Ty: boolT}
		case token.NEQ:
			return TV{T: not(eq(a.T, b.T)), Ty: boolT}
		case token.ADD, token.SUB, token.MUL:
			return TV{T: "(" + ops[n.Op] + " " + a.T + " " + b.T + ")", Ty: ghostIntType}
		case token.LSS, token.LEQ, token.GTR, token.GEQ:
			return TV{T: "(" + ops[n.Op] + " " + a.T + " " + b.T + ")", Ty: boolT}
		}
		return env.fail("operator %s on mathint", n.Op)
	}
	if a.Ty == seqType {
		switch n.Op {
		case token.EQL:
			return TV{T: eq(a.T, b.T), Ty: boolT}
		case token.NEQ:
			return TV{T: not(eq(a.T, b.T)), Ty: boolT}
		}
	}
	switch n.Op {
	case token.EQL, token.NEQ, token.LSS, token.LEQ, token.GTR, token.GEQ:
		if c.Sort(a.Ty) != c.Sort(b.Ty) {
			return env.fail("comparison of %s and %s in %s", a.Ty, b.Ty, exprString(n))
		}
		t, _ := env.e.binop(n.Op, Val{T: a.T}, Val{T: b.T}, a.Ty, b.Ty, boolT)
		return TV{T: t, Ty: boolT}
	}
	t, _ := env.e.binop(n.Op, Val{T: a.T}, Val{T: b.T}, a.Ty, b.Ty, a.Ty)
	return TV{T: t, Ty: a.Ty}
}

// evalAddr evaluates an lvalue expression (x.f, x.f.g, global) to an address.
func (env *Env) evalAddr(x ast.Expr) *Addr {
	switch n := x.(type) {
	case *ast.ParenExpr:
		return env.evalAddr(n.X)
	case *ast.Ident:
		if tv, ok := env.vars[n.Name]; ok {
			if tv.A != nil && tv.T == "" {
				// variable bound to a cell address denotes the cell's content only via load
				return nil
			}
			return nil
		}
		if env.pkg != nil {
			if o, ok := env.pkg.Pkg.Scope().Lookup(n.Name).(*types.Var); ok {
				comp := "G." + env.pkg.Pkg.Name() + "." + n.Name
				env.e.c.DeclComp(comp, env.e.c.Sort(o.Type()))
				return &Addr{Kind: "cell", Comp: comp, Typ: o.Type(), Root: o.Type()}
			}
		}
	case *ast.SelectorExpr:
		// base address?
		if ba := env.evalAddr(n.X); ba != nil {
			if st, ok := ba.Typ.Underlying().(*types.Struct); ok {
				for i := 0; i < st.NumFields(); i++ {
					if st.Field(i).Name() == n.Sel.Name {
						na := *ba
						na.Path = append(append([]pathStep{}, ba.Path...), pathStep{St: ba.Typ, Idx: i})
						na.Typ = st.Field(i).Type()
						return &na
					}
				}
				// promoted field through embedded struct
				for i := 0; i < st.NumFields(); i++ {
					if st.Field(i).Embedded() {
						if est, ok := st.Field(i).Type().Underlying().(*types.Struct); ok {
							for j := 0; j < est.NumFields(); j++ {
								if est.Field(j).Name() == n.Sel.Name {
									na := *ba
									na.Path = append(append([]pathStep{}, ba.Path...), pathStep{St: ba.Typ, Idx: i}, pathStep{St: st.Field(i).Type(), Idx: j})
									na.Typ = est.Field(j).Type()
									return &na
								}
							}
						}
					}
				}
				return nil
			}
			// pointer stored at ba: load it and continue
			if pt, ok := ba.Typ.Underlying().(*types.Pointer); ok && isStruct(pt.Elem()) {
				ref := env.e.loadAddr(env.st, ba)
				return env.fieldOfRef(ref, pt.Elem(), n.Sel.Name)
			}
			return nil
		}
		if id, ok := n.X.(*ast.Ident); ok {
			if _, isVar := env.vars[id.Name]; !isVar {
				return nil // package-qualified, not an address
			}
		}
		b := env.eval(n.X)
		if b.Ty == nil {
			return nil
		}
		if pt, ok := b.Ty.Underlying().(*types.Pointer); ok && isStruct(pt.Elem()) {
			if b.A != nil && b.T == "" {
				// interior address of a struct value
				st := pt.Elem().Underlying().(*types.Struct)
				for i := 0; i < st.NumFields(); i++ {
					if st.Field(i).Name() == n.Sel.Name {
						na := *b.A
						na.Path = append(append([]pathStep{}, b.A.Path...), pathStep{St: pt.Elem(), Idx: i})
						na.Typ = st.Field(i).Type()
						return &na
					}
				}
				return nil
			}
			return env.fieldOfRef(b.T, pt.Elem(), n.Sel.Name)
		}
	}
	return nil
}

func (env *Env) fieldOfRef(ref string, stt types.Type, name string) *Addr {
	st := stt.Underlying().(*types.Struct)
	for i := 0; i < st.NumFields(); i++ {
		if st.Field(i).Name() == name {
			ft := st.Field(i).Type()
			return &Addr{Kind: "field", Comp: env.e.declField(stt, i), Base: ref, Typ: ft, Root: ft}
		}
	}
	for i := 0; i < st.NumFields(); i++ {
		if st.Field(i).Embedded() {
			if est, ok := st.Field(i).Type().Underlying().(*types.Struct); ok {
				for j := 0; j < est.NumFields(); j++ {
					if est.Field(j).Name() == name {
						ft := st.Field(i).Type()
						return &Addr{Kind: "field", Comp: env.e.declField(stt, i), Base: ref, Root: ft,
							Path: []pathStep{{St: ft, Idx: j}}, Typ: est.Field(j).Type()}
					}
				}
			}
		}
	}
	return nil
}

func (env *Env) call(n *ast.CallExpr) TV {
	c := env.e.c
	boolT := types.Typ[types.Bool]
	fname := ""
	switch f := n.Fun.(type) {
	case *ast.Ident:
		fname = f.Name
	case *ast.SelectorExpr:
		if id, ok := f.X.(*ast.Ident); ok {
			fname = id.Name + "." + f.Sel.Name
		}
	case *ast.ParenExpr, *ast.StarExpr, *ast.ArrayType:
	}
	// conversion?
	if t := env.typeExpr(n.Fun); t != nil && len(n.Args) == 1 {
		v := env.eval(n.Args[0])
		if v.Ty == nil {
			return env.coerce(v, t)
		}
		if isMathInt(t) {
			// exact value of a machine integer as a mathematical integer
			w, signed, ok := isInt(v.Ty)
			if !ok {
				return env.fail("mathint of non-integer")
			}
			return TV{T: env.bvToInt(v.T, w, signed), Ty: ghostIntType}
		}
		return TV{T: env.e.convert(v.T, v.Ty, t), Ty: t}
	}
	switch fname {
	case "implies", "forall", "forall_lastsplit", "old", "atloop", "sameOwed", "sameOwn", "owedNonNeg", "nolocks", "samelocks", "samelocksExcept", "sameWrExcept", "sameRdExcept", "sameelems", "strelems", "elemsbetween", "elemsnot":
	default:
		if _, isDef := env.e.p.cs.Defines[fname]; !isDef {
			env = env.noSkolem()
		}
	}
	switch fname {
	case "conv": // conv(e): convert to the type of the composite-literal field being built
		if env.convTo == nil {
			return env.fail("conv outside a composite literal field")
		}
		to := env.convTo
		sub := *env
		sub.convTo = nil
		v := sub.eval(n.Args[0])
		if v.Ty == nil {
			return env.coerce(v, to)
		}
		return TV{T: env.e.convert(v.T, v.Ty, to), Ty: to}
	case "old":
		return env.with(env.old).eval(n.Args[0])
	case "atloop": // value at loop entry (before the first iteration)
		if env.loopPre == nil {
			return env.fail("atloop outside a loop invariant")
		}
		return env.with(env.loopPre).eval(n.Args[0])
	case "implies":
		return TV{T: implies(env.noSkolem().evalBool(n.Args[0]), env.evalBool(n.Args[1])), Ty: boolT}
	case "iff":
		ns := env.noSkolem()
		return TV{T: eq(ns.evalBool(n.Args[0]), ns.evalBool(n.Args[1])), Ty: boolT}
	case "ite":
		cnd := env.evalBool(n.Args[0])
		a, b := env.eval(n.Args[1]), env.eval(n.Args[2])
		if a.Ty == nil {
			a = env.coerce(a, b.Ty)
		}
		if b.Ty == nil {
			b = env.coerce(b, a.Ty)
		}
		if a.Ty == nil {
			a, b = env.defaultType(a), env.defaultType(b)
		}
		return TV{T: ite(cnd, a.T, b.T), Ty: a.Ty}
	case "len", "cap":
		v := env.eval(n.Args[0])
		if v.Ty == nil {
			v = env.defaultType(v)
		}
		switch env.e.c.Sort(v.Ty) {
		case "Slice":
			if fname == "len" {
				return TV{T: "(s.len " + v.T + ")", Ty: types.Typ[types.Int]}
			}
			return TV{T: "(s.cap " + v.T + ")", Ty: types.Typ[types.Int]}
		case "GStr":
			return TV{T: "(gs.len " + v.T + ")", Ty: types.Typ[types.Int]}
		}
		return env.fail("len of %s", v.Ty)
	case "forall", "exists", "forall_lastsplit":
		lastSplit := fname == "forall_lastsplit"
		if lastSplit {
			fname = "forall" // same meaning; as a proof goal it is decided in two cases (last index / the others)
		}
		// forall(i, lo, hi, body): i ranges over int with lo <= i < hi
		// forall(x, T, body): x ranges over all values of type T
		id, ok := n.Args[0].(*ast.Ident)
		if !ok {
			return env.fail("forall: first argument must be an identifier")
		}
		if len(n.Args) == 3 {
			t := env.typeExpr(n.Args[1])
			if t == nil {
				return env.fail("forall: bad type")
			}
			if env.skolem && fname == "forall" {
				// leading universal quantifier of a proof goal: a fresh constant
				sk := c.Fresh("sk."+id.Name, env.sortOf(t))
				c.Assert(env.e.typeInv(t, sk))
				sub := *env
				sub.vars = map[string]TV{}
				for k, v := range env.vars {
					sub.vars[k] = v
				}
				sub.vars[id.Name] = TV{T: sk, Ty: t}
				return TV{T: sub.evalBool(n.Args[2]), Ty: boolT}
			}
			c.nfresh++
			bv := q(fmt.Sprintf("%s!%d", id.Name, c.nfresh))
			sub := *env
			sub.vars = map[string]TV{}
			for k, v := range env.vars {
				sub.vars[k] = v
			}
			sub.vars[id.Name] = TV{T: bv, Ty: t}
			body := sub.evalBool(n.Args[2])
			return TV{T: fmt.Sprintf("(%s ((%s %s)) %s)", fname, bv, env.sortOf(t), body), Ty: boolT}
		}
		if len(n.Args) != 4 {
			return env.fail("forall needs 3 or 4 arguments")
		}
		intT := types.Typ[types.Int]
		lo := env.coerce(env.eval(n.Args[1]), intT)
		hi := env.coerce(env.eval(n.Args[2]), intT)
		c.nfresh++
		bv := q(fmt.Sprintf("%s!%d", id.Name, c.nfresh))
		sub := *env
		sub.vars = map[string]TV{}
		for k, v := range env.vars {
			sub.vars[k] = v
		}
		sub.vars[id.Name] = TV{T: bv, Ty: intT}
		if env.skolem && fname == "forall" {
			sk := c.Fresh("sk."+id.Name, bvSort(64))
			sub.vars[id.Name] = TV{T: sk, Ty: intT}
			body := sub.evalBool(n.Args[3])
			rngSk := and("(bvsle "+lo.T+" "+sk+")", "(bvslt "+sk+" "+hi.T+")")
			if lastSplit {
				last := eq(sk, "(bvsub "+hi.T+" "+bvLit(64, 1)+")")
				return TV{T: and(implies(and(rngSk, last), body), implies(and(rngSk, not(last)), body)), Ty: boolT}
			}
			return TV{T: implies(rngSk, body), Ty: boolT}
		}
		sub.skolem = false
		body := sub.evalBool(n.Args[3])
		rng := and("(bvsle "+lo.T+" "+bv+")", "(bvslt "+bv+" "+hi.T+")")
		if fname == "forall" {
			// forall x. R(x) => forall y. B(x,y)  ==  forall x y. R(x) => B(x,y):
			// one quantifier with both variables lets the solver build
			// patterns from the terms of B (a nested quantifier whose outer
			// variable occurs in no term of its own gets none)
			if binders, inner, ok := splitForall(body); ok {
				vars := append([]string{bv}, binderNames(binders)...)
				return TV{T: fmt.Sprintf("(forall ((%s (_ BitVec 64)) %s) %s)", bv, binders, withPattern(implies(rng, inner), vars)), Ty: boolT}
			}
			return TV{T: fmt.Sprintf("(forall ((%s (_ BitVec 64))) %s)", bv, withPattern(implies(rng, body), []string{bv})), Ty: boolT}
		}
		return TV{T: fmt.Sprintf("(exists ((%s (_ BitVec 64))) %s)", bv, and(rng, body)), Ty: boolT}
	case "nolocks": // this invocation holds no mutex
		env.e.declHeld()
		if env.skolem {
			sk := c.Fresh("sk.mu", "MuId")
			return TV{T: eq(sel(c.Get(env.st, "$held"), sk), "0"), Ty: boolT}
		}
		return TV{T: eq(c.Get(env.st, "$held"), "((as const (Array MuId Int)) 0)"), Ty: boolT}
	case "samelocks": // lock state equals the one at entry
		env.e.declHeld()
		if env.skolem {
			sk := c.Fresh("sk.mu", "MuId")
			return TV{T: eq(sel(c.Get(env.st, "$held"), sk), sel(c.Get(env.old, "$held"), sk)), Ty: boolT}
		}
		return TV{T: eq(c.Get(env.st, "$held"), c.Get(env.old, "$held")), Ty: boolT}
	case "smhas", "smget", "au": // ghost views of a package-level sync.Map / atomic.Uint64
		a := env.evalAddr(n.Args[0])
		if a == nil || a.Kind != "cell" {
			return env.fail("%s: first argument must be a package-level variable", fname)
		}
		if fname == "au" {
			comp := "$au." + a.Comp
			c.DeclComp(comp, bvSort(64))
			return TV{T: c.Get(env.st, comp), Ty: types.Typ[types.Uint64]}
		}
		dom, val := env.e.syncMapComps(a.Comp)
		k := env.eval(n.Args[1])
		if fname == "smhas" {
			return TV{T: sel(c.Get(env.st, dom), k.T), Ty: boolT}
		}
		return TV{T: sel(c.Get(env.st, val), k.T), Ty: types.Universe.Lookup("any").Type()}
	case "sumlens": // sumlens(ss) / sumlens(ss, k): total length of (the first k of) a slice of byte slices
		v := env.eval(n.Args[0])
		sl, ok := v.Ty.Underlying().(*types.Slice)
		if !ok {
			return env.fail("sumlens: not a slice of slices")
		}
		if _, ok := sl.Elem().Underlying().(*types.Slice); !ok {
			return env.fail("sumlens: not a slice of slices")
		}
		comp := env.e.elemComp(sl.Elem())
		c.Decl("sumlens", "(declare-fun sumlens ((Array (_ BitVec 64) Slice) (_ BitVec 64) (_ BitVec 64)) (_ BitVec 64))")
		if !c.sumlensAx {
			c.sumlensAx = true
			// a write below the summed range does not change the sum (the only
			// fact about sumlens kept as a quantified axiom; the others are
			// injected as ground instances, because quantifiers over an array
			// sort switch off the solver's model-based instantiation)
			c.lazy = append(c.lazy,
				lazyAxiom{"sumlens", "(assert (forall ((a (Array (_ BitVec 64) Slice)) (i (_ BitVec 64)) (v Slice) (o (_ BitVec 64)) (l (_ BitVec 64))) (! (=> (bvslt i o) (= (sumlens (store a i v) o l) (sumlens a o l))) :pattern ((sumlens (store a i v) o l)))))"},
			)
		}
		arr := sel(c.Get(env.st, comp), "(s.arr "+v.T+")")
		ln := "(s.len " + v.T + ")"
		if len(n.Args) == 2 {
			k := env.coerce(env.eval(n.Args[1]), types.Typ[types.Int])
			ln = k.T
		}
		term := fmt.Sprintf("(sumlens %s (s.off %s) %s)", arr, v.T, ln)
		// ground instances: the empty sum is 0; a sum of (non-negative)
		// lengths is non-negative
		if !boundVarRe.MatchString(term) { // (not under a quantifier that binds part of the term)
			c.Assert(eq(fmt.Sprintf("(sumlens %s (s.off %s) %s)", arr, v.T, bvLit(64, 0)), bvLit(64, 0)))
			c.Assert(implies("(bvsge "+ln+" "+bvLit(64, 0)+")", "(bvsge "+term+" "+bvLit(64, 0)+")"))
		}
		return TV{T: term, Ty: types.Typ[types.Int]}
	case "sumcons", "sumsnoc":
		// lemma instances of the definition of sumlens, injected as facts
		// where a contract names them (the two unfoldings create new sumlens
		// terms and would loop as quantified axioms):
		//   sumcons(ss):    len(ss) > 0 ==> sumlens(ss) == len(ss[0]) + sumlens(ss[1:])
		//   sumsnoc(ss, k): 0 <= k < len(ss) ==> sumlens(ss, k+1) == sumlens(ss, k) + len(ss[k])
		// Both hold of the mathematical sum; the term itself is true.
		v := env.eval(n.Args[0])
		sl, ok := v.Ty.Underlying().(*types.Slice)
		if !ok {
			return env.fail("%s: not a slice of slices", fname)
		}
		comp := env.e.elemComp(sl.Elem())
		c.Decl("sumlens", "(declare-fun sumlens ((Array (_ BitVec 64) Slice) (_ BitVec 64) (_ BitVec 64)) (_ BitVec 64))")
		arr := sel(c.Get(env.st, comp), "(s.arr "+v.T+")")
		off, ln := "(s.off "+v.T+")", "(s.len "+v.T+")"
		one, zero := bvLit(64, 1), bvLit(64, 0)
		if fname == "sumcons" {
			c.Assert(implies("(bvsgt "+ln+" "+zero+")", eq(fmt.Sprintf("(sumlens %s %s %s)", arr, off, ln),
				fmt.Sprintf("(bvadd (s.len (select %s %s)) (sumlens %s (bvadd %s %s) (bvsub %s %s)))", arr, off, arr, off, one, ln, one))))
		} else {
			k := env.coerce(env.eval(n.Args[1]), types.Typ[types.Int])
			c.Assert(implies(and("(bvsle "+zero+" "+k.T+")", "(bvslt "+k.T+" "+ln+")"), eq(fmt.Sprintf("(sumlens %s %s (bvadd %s %s))", arr, off, k.T, one),
				fmt.Sprintf("(bvadd (sumlens %s %s %s) (s.len (select %s (bvadd %s %s))))", arr, off, k.T, arr, off, k.T))))
		}
		c.Assume("lemma instance of the definition of sumlens (" + fname + ")")
		return TV{T: "true", Ty: boolT}
	case "isnew": // isnew(r): reference r was allocated by this invocation (after entry)
		v := env.eval(n.Args[0])
		return TV{T: "(> " + v.T + " " + env.e.top(env.old) + ")", Ty: boolT}
	case "samelocksExcept": // samelocksExcept(mu): every other mutex is held as at entry
		env.e.declHeld()
		a := env.evalAddr(n.Args[0])
		if a == nil {
			return env.fail("samelocksExcept: not a mutex lvalue: %s", exprString(n.Args[0]))
		}
		mu := env.e.muId(a)
		if env.skolem {
			sk := c.Fresh("sk.mu", "MuId")
			return TV{T: implies(not(eq(sk, mu)), eq(sel(c.Get(env.st, "$held"), sk), sel(c.Get(env.old, "$held"), sk))), Ty: boolT}
		}
		c.nfresh++
		bv := q(fmt.Sprintf("mu!%d", c.nfresh))
		return TV{T: fmt.Sprintf("(forall ((%s MuId)) %s)", bv, implies(not(eq(bv, mu)), eq(sel(c.Get(env.st, "$held"), bv), sel(c.Get(env.old, "$held"), bv)))), Ty: boolT}
	case "bound": // bound(x): interface value x was loaded from the file field of a fidRef
		v := env.eval(n.Args[0])
		if r, ok := env.e.prov[v.T]; ok {
			if env.e.provGhost[r] {
				return TV{T: "(not (= " + r + " 0))", Ty: boolT}
			}
			return TV{T: "true", Ty: boolT}
		}
		return TV{T: "false", Ty: boolT}
	case "refof": // the fidRef whose file field x was loaded from
		v := env.eval(n.Args[0])
		if r, ok := env.e.prov[v.T]; ok {
			return TV{T: r, Ty: env.lookupType("*p9.fidRef")}
		}
		return TV{T: "0", Ty: env.lookupType("*p9.fidRef")}
	case "owed": // references to r that this invocation holds and must drop or hand over
		v := env.eval(n.Args[0])
		env.e.declOwed()
		return TV{T: sel(c.Get(env.st, "$owed"), v.T), Ty: ghostIntType}
	case "noOwed": // the invocation holds no reference
		env.e.declOwed()
		return TV{T: eq(c.Get(env.st, "$owed"), "((as const (Array Int Int)) 0)"), Ty: boolT}
	case "owedNonNeg":
		env.e.declOwed()
		if env.skolem {
			sk := c.Fresh("sk.r", "Int")
			return TV{T: "(>= " + sel(c.Get(env.st, "$owed"), sk) + " 0)", Ty: boolT}
		}
		return TV{T: "(forall ((r Int)) (! (>= (select " + c.Get(env.st, "$owed") + " r) 0) :pattern ((select " + c.Get(env.st, "$owed") + " r))))", Ty: boolT}
	case "sameOwed": // no net change of held references (optionally except r)
		env.e.declOwed()
		cur, old := c.Get(env.st, "$owed"), c.Get(env.old, "$owed")
		if env.skolem {
			sk := c.Fresh("sk.r", "Int")
			body := eq(sel(cur, sk), sel(old, sk))
			if len(n.Args) == 1 {
				v := env.noSkolem().eval(n.Args[0])
				body = implies(not(eq(sk, v.T)), body)
			}
			return TV{T: body, Ty: boolT}
		}
		if len(n.Args) == 0 {
			return TV{T: eq(cur, old), Ty: boolT}
		}
		v := env.eval(n.Args[0])
		return TV{T: eq(cur, sto(old, v.T, sel(cur, v.T))), Ty: boolT}
	case "gm": // gm("$name", key): ghost map Int -> Int (keys are references)
		lit, ok := n.Args[0].(*ast.BasicLit)
		if !ok || len(n.Args) != 2 {
			return env.fail("gm(\"$name\", key)")
		}
		comp := "$gm." + strings.TrimPrefix(strings.Trim(lit.Value, "\""), "$")
		c.DeclComp(comp, "(Array Int Int)")
		v := env.eval(n.Args[1])
		return TV{T: sel(c.Get(env.st, comp), v.T), Ty: ghostIntType}
	case "own": // ownership state of a File: 0 untracked, 1 owned by this invocation, 2 owned by a reference, 3 closed
		v := env.eval(n.Args[0])
		env.e.declOwn()
		return TV{T: sel(c.Get(env.st, "$own"), v.T), Ty: ghostIntType}
	case "sameOwn": // no File became locally owned (optionally except f)
		env.e.declOwn()
		cur, old := c.Get(env.st, "$own"), c.Get(env.old, "$own")
		c.nfresh++
		bv := q(fmt.Sprintf("f!%d", c.nfresh))
		ex := ""
		if len(n.Args) == 1 {
			v := env.eval(n.Args[0])
			ex = "(not (= " + bv + " " + v.T + "))"
		}
		body := implies(and(eq(sel(cur, bv), "1"), ex), eq(sel(old, bv), "1"))
		if env.skolem {
			sk := c.Fresh("sk.f", "Iface")
			return TV{T: strings.ReplaceAll(body, bv, sk), Ty: boolT}
		}
		return TV{T: fmt.Sprintf("(forall ((%s Iface)) %s)", bv, body), Ty: boolT}
	case "implements": // implements(x, Iface): the dynamic type of x implements the interface
		v := env.eval(n.Args[0])
		it := env.typeExpr(n.Args[1])
		if it == nil || !types.IsInterface(it) {
			return env.fail("implements: unknown interface %s", exprString(n.Args[1]))
		}
		return TV{T: env.e.implPred(it, "(i.type "+v.T+")"), Ty: boolT}
	case "ishandler": // dynamic type of m implements p9.handler
		v := env.eval(n.Args[0])
		it := env.lookupType("p9.handler")
		if it == nil {
			return env.fail("no handler interface")
		}
		return TV{T: env.e.implPred(it, "(i.type "+v.T+")"), Ty: boolT}
	case "closed": // channel has been closed
		v := env.eval(n.Args[0])
		c.DeclComp("$closed", "(Array Int Bool)")
		return TV{T: sel(c.Get(env.st, "$closed"), v.T), Ty: boolT}
	case "sameelems": // sameelems(a, b, n): the first n elements of slices a and b agree
		a, aArr := env.sliceAndArray(n.Args[0])
		b, bArr := env.sliceAndArray(n.Args[1])
		nn := env.coerce(env.eval(n.Args[2]), types.Typ[types.Int])
		if aArr == "" || bArr == "" {
			return env.fail("sameelems: slice arguments expected")
		}
		body := func(j string) string {
			return implies(and("(bvsle (s.off "+a+") "+j+")", "(bvslt "+j+" (bvadd (s.off "+a+") "+nn.T+"))"),
				eq(sel(aArr, j), sel(bArr, "(bvadd (bvsub "+j+" (s.off "+a+")) (s.off "+b+"))")))
		}
		if env.skolem {
			sk := c.Fresh("sk.j", bvSort(64))
			return TV{T: body(sk), Ty: boolT}
		}
		return TV{T: fmt.Sprintf("(forall ((j (_ BitVec 64))) (! %s :pattern ((select %s j))))", body("j"), aArr), Ty: boolT}
	case "elemsbetween", "elemsnot": // every element of the slice lies in [lo, hi) / differs from v
		a, aArr := env.sliceAndArray(n.Args[0])
		if aArr == "" {
			return env.fail("%s: slice expected", fname)
		}
		sl := env.noSkolem().eval(stripOld(n.Args[0])).Ty.Underlying().(*types.Slice)
		_, signed, _ := isInt(sl.Elem())
		lt := "bvult"
		if signed {
			lt = "bvslt"
		}
		var cond func(el string) string
		if fname == "elemsbetween" {
			lo := env.coerce(env.noSkolem().eval(n.Args[1]), sl.Elem())
			hi := env.coerce(env.noSkolem().eval(n.Args[2]), sl.Elem())
			cond = func(el string) string { return and(not("("+lt+" "+el+" "+lo.T+")"), "("+lt+" "+el+" "+hi.T+")") }
		} else {
			v := env.coerce(env.noSkolem().eval(n.Args[1]), sl.Elem())
			cond = func(el string) string { return not(eq(el, v.T)) }
		}
		body := func(j string) string {
			return implies(and("(bvsle (s.off "+a+") "+j+")", "(bvslt "+j+" (bvadd (s.off "+a+") (s.len "+a+")))"), cond(sel(aArr, j)))
		}
		if env.skolem {
			sk := c.Fresh("sk.j", bvSort(64))
			return TV{T: body(sk), Ty: boolT}
		}
		return TV{T: fmt.Sprintf("(forall ((j (_ BitVec 64))) (! %s :pattern ((select %s j))))", body("j"), aArr), Ty: boolT}
	case "strelems": // strelems(a, pos, s): a[pos+k] == s[k] for all k < len(s)
		a, aArr := env.sliceAndArray(n.Args[0])
		pos := env.coerce(env.eval(n.Args[1]), types.Typ[types.Int])
		sv := env.defaultType(env.eval(n.Args[2]))
		cnt := "(gs.len " + sv.T + ")"
		if len(n.Args) == 4 {
			cnt = env.coerce(env.eval(n.Args[3]), types.Typ[types.Int]).T
		}
		if aArr == "" {
			return env.fail("strelems: slice expected")
		}
		base := "(bvadd (s.off " + a + ") " + pos.T + ")"
		body := func(j string) string {
			return implies(and("(bvsle "+base+" "+j+")", "(bvslt "+j+" (bvadd "+base+" "+cnt+"))"),
				eq(sel(aArr, j), "(gs.at "+sv.T+" (bvsub "+j+" "+base+"))"))
		}
		if env.skolem {
			sk := c.Fresh("sk.j", bvSort(64))
			return TV{T: body(sk), Ty: boolT}
		}
		return TV{T: fmt.Sprintf("(forall ((j (_ BitVec 64))) (! %s :pattern ((select %s j))))", body("j"), aArr), Ty: boolT}
	case "snocstrs", "snocqids": // s followed by the encodings of list[0..i)
		sq := env.eval(n.Args[0])
		l := env.eval(n.Args[1])
		i := env.coerce(env.eval(n.Args[2]), types.Typ[types.Int])
		i64 := env.e.convert(i.T, i.Ty, types.Typ[types.Int])
		sl, ok := l.Ty.Underlying().(*types.Slice)
		if !ok {
			return env.fail("%s: second argument must be a slice", fname)
		}
		es := c.Sort(sl.Elem())
		fn := "bq." + fname
		c.Decl(fn, fmt.Sprintf("(declare-fun %s (BSeq (Array (_ BitVec 64) %s) (_ BitVec 64) (_ BitVec 64)) BSeq)", fn, es))
		elems := sel(c.Get(env.st, env.e.elemComp(sl.Elem())), "(s.arr "+l.T+")")
		off := "(s.off " + l.T + ")"
		app := func(idx string) string { return fmt.Sprintf("(%s %s %s %s %s)", fn, sq.T, elems, off, idx) }
		t := app(i64)
		// one-step unfolding at this index (an instance of the defining axiom)
		prev := "(bvsub " + i64 + " #x0000000000000001)"
		el := sel(elems, "(bvadd "+off+" "+prev+")")
		var step TV
		if fname == "snocstrs" {
			l16 := "((_ extract 15 0) (gs.len " + el + "))"
			step = TV{T: fmt.Sprintf("(bq.snocraw (bq.snoc (bq.snoc %s ((_ extract 7 0) %s)) ((_ extract 15 8) %s)) %s)", app(prev), l16, l16, el), Ty: seqType}
		} else {
			d := env.e.p.cs.Defines["enc_QID"]
			if d == nil {
				return env.fail("snocqids needs record QID")
			}
			step = env.applyDefineTV(d, []TV{{T: app(prev), Ty: seqType}, {T: el, Ty: sl.Elem()}})
		}
		c.Assert(and(implies("(bvsgt "+i64+" #x0000000000000000)", eq(t, step.T)), implies(eq(i64, "#x0000000000000000"), eq(t, sq.T))))
		return TV{T: t, Ty: seqType}
	case "consstrs", "consqids": // encodings of list[i..n) followed by rest
		l := env.eval(n.Args[0])
		i := env.coerce(env.eval(n.Args[1]), types.Typ[types.Int])
		i64 := env.e.convert(i.T, i.Ty, types.Typ[types.Int])
		nn := env.coerce(env.eval(n.Args[2]), types.Typ[types.Int])
		n64 := env.e.convert(nn.T, nn.Ty, types.Typ[types.Int])
		rest := env.eval(n.Args[3])
		fn := "bq." + fname
		c.Decl(fn, fmt.Sprintf("(declare-fun %s (%s (_ BitVec 64) (_ BitVec 64) BSeq) BSeq)", fn, env.sortOf(l.Ty)))
		app := func(idx string) string { return fmt.Sprintf("(%s %s %s %s %s)", fn, l.T, idx, n64, rest.T) }
		t := app(i64)
		next := app("(bvadd " + i64 + " #x0000000000000001)")
		el := sel(l.T, i64)
		var step TV
		if fname == "consstrs" {
			l16 := "((_ extract 15 0) (gs.len " + el + "))"
			step = TV{T: fmt.Sprintf("(bq.cons ((_ extract 7 0) %s) (bq.cons ((_ extract 15 8) %s) (bq.consraw %s %s)))", l16, l16, el, next), Ty: seqType}
		} else {
			d := env.e.p.cs.Defines["dec_QID"]
			if d == nil {
				return env.fail("consqids needs record QID")
			}
			step = env.applyDefineTV(d, []TV{{T: el, Ty: env.lookupType("p9.QID")}, {T: next, Ty: seqType}})
		}
		c.Assert(and(implies("(bvslt "+i64+" "+n64+")", eq(t, step.T)), implies("(bvsge "+i64+" "+n64+")", eq(t, rest.T))))
		return TV{T: t, Ty: seqType}
	case "sameWrExcept", "sameRdExcept": // every other buffer's ghost sequence is unchanged
		comp := "$wr"
		if fname == "sameRdExcept" {
			comp = "$rd"
		}
		c.DeclComp(comp, "(Array Int BSeq)")
		v := env.noSkolem().eval(n.Args[0])
		cur, old := c.Get(env.st, comp), c.Get(env.old, comp)
		if env.skolem {
			sk := c.Fresh("sk.buf", "Int")
			return TV{T: implies(not(eq(sk, v.T)), eq(sel(cur, sk), sel(old, sk))), Ty: boolT}
		}
		return TV{T: eq(cur, sto(old, v.T, sel(cur, v.T))), Ty: boolT}
	case "wr", "rd": // ghost byte sequence written to / remaining in a buffer
		v := env.eval(n.Args[0])
		comp := "$" + fname
		c.DeclComp(comp, "(Array Int BSeq)")
		return TV{T: sel(c.Get(env.st, comp), v.T), Ty: seqType}
	case "snoc8", "snoc16", "snoc32", "snoc64":
		sq := env.eval(n.Args[0])
		w := map[string]int{"snoc8": 8, "snoc16": 16, "snoc32": 32, "snoc64": 64}[fname]
		v := env.intArg(n.Args[1], w)
		t := sq.T
		for k := 0; k < w/8; k++ {
			t = fmt.Sprintf("(bq.snoc %s ((_ extract %d %d) %s))", t, 8*k+7, 8*k, v)
		}
		return TV{T: t, Ty: seqType}
	case "snocstr": // 2-byte length then the bytes
		sq := env.eval(n.Args[0])
		sv := env.defaultType(env.eval(n.Args[1]))
		l := "((_ extract 15 0) (gs.len " + sv.T + "))"
		t := fmt.Sprintf("(bq.snoc (bq.snoc %s ((_ extract 7 0) %s)) ((_ extract 15 8) %s))", sq.T, l, l)
		return TV{T: "(bq.snocraw " + t + " " + sv.T + ")", Ty: seqType}
	case "cons8", "cons16", "cons32", "cons64":
		w := map[string]int{"cons8": 8, "cons16": 16, "cons32": 32, "cons64": 64}[fname]
		v := env.intArg(n.Args[0], w)
		sq := env.eval(n.Args[1])
		t := sq.T
		for k := w/8 - 1; k >= 0; k-- {
			t = fmt.Sprintf("(bq.cons ((_ extract %d %d) %s) %s)", 8*k+7, 8*k, v, t)
		}
		return TV{T: t, Ty: seqType}
	case "consstr":
		sv := env.defaultType(env.eval(n.Args[0]))
		sq := env.eval(n.Args[1])
		l := "((_ extract 15 0) (gs.len " + sv.T + "))"
		return TV{T: fmt.Sprintf("(bq.cons ((_ extract 7 0) %s) (bq.cons ((_ extract 15 8) %s) (bq.consraw %s %s)))", l, l, sv.T, sq.T), Ty: seqType}
	case "has8", "has16", "has32", "has64": // the sequence starts with that many bytes
		sq := env.eval(n.Args[0])
		k := map[string]int{"has8": 1, "has16": 2, "has32": 4, "has64": 8}[fname]
		return TV{T: eq(sq.T, seqRebuild(sq.T, k)), Ty: boolT}
	case "take8", "take16", "take32", "take64": // little-endian value of the first bytes
		sq := env.eval(n.Args[0])
		k := map[string]int{"take8": 1, "take16": 2, "take32": 4, "take64": 8}[fname]
		t := ""
		cur := sq.T
		for i := 0; i < k; i++ {
			b := "(bq.head " + cur + ")"
			if i == 0 {
				t = b
			} else {
				t = "(concat " + b + " " + t + ")"
			}
			cur = "(bq.tail " + cur + ")"
		}
		ty := map[int]types.Type{1: types.Typ[types.Uint8], 2: types.Typ[types.Uint16], 4: types.Typ[types.Uint32], 8: types.Typ[types.Uint64]}[k]
		return TV{T: t, Ty: ty}
	case "drop8", "drop16", "drop32", "drop64":
		sq := env.eval(n.Args[0])
		k := map[string]int{"drop8": 1, "drop16": 2, "drop32": 4, "drop64": 8}[fname]
		return TV{T: seqDrop(sq.T, k), Ty: seqType}
	case "hasstr": // 2-byte length l followed by l raw bytes
		sq := env.eval(n.Args[0])
		l := seqLen16(sq.T)
		t2 := seqDrop(sq.T, 2)
		return TV{T: and(eq(sq.T, seqRebuild(sq.T, 2)), eq(t2, fmt.Sprintf("(bq.consraw (bq.rawhead %s %s) (bq.rawtail %s %s))", t2, l, t2, l)), eq("(gs.len (bq.rawhead "+t2+" "+l+"))", l)), Ty: boolT}
	case "takestr":
		sq := env.eval(n.Args[0])
		return TV{T: "(bq.rawhead " + seqDrop(sq.T, 2) + " " + seqLen16(sq.T) + ")", Ty: types.Typ[types.String]}
	case "dropstr":
		sq := env.eval(n.Args[0])
		return TV{T: "(bq.rawtail " + seqDrop(sq.T, 2) + " " + seqLen16(sq.T) + ")", Ty: seqType}
	case "arr": // backing array identity of a slice (mathint)
		v := env.eval(n.Args[0])
		return TV{T: "(s.arr " + v.T + ")", Ty: ghostIntType}
	case "rawelem": // rawelem(s, k): element at absolute index k of the backing array of slice s
		v := env.eval(n.Args[0])
		sl, ok := v.Ty.Underlying().(*types.Slice)
		if !ok {
			return env.fail("rawelem: not a slice")
		}
		k := env.coerce(env.eval(n.Args[1]), types.Typ[types.Int])
		comp := env.e.elemComp(sl.Elem())
		return TV{T: sel(sel(c.Get(env.st, comp), "(s.arr "+v.T+")"), k.T), Ty: sl.Elem()}
	case "off": // offset of a slice in its backing array
		v := env.eval(n.Args[0])
		return TV{T: "(s.off " + v.T + ")", Ty: types.Typ[types.Int]}
	case "min", "max":
		a, b := env.eval(n.Args[0]), env.eval(n.Args[1])
		if a.Ty == nil {
			a = env.coerce(a, b.Ty)
		}
		if b.Ty == nil {
			b = env.coerce(b, a.Ty)
		}
		if a.Ty == nil {
			a, b = env.defaultType(a), env.defaultType(b)
		}
		_, signed, _ := isInt(a.Ty)
		op := "bvule"
		if signed {
			op = "bvsle"
		}
		if fname == "min" {
			return TV{T: fmt.Sprintf("(ite (%s %s %s) %s %s)", op, a.T, b.T, a.T, b.T), Ty: a.Ty}
		}
		return TV{T: fmt.Sprintf("(ite (%s %s %s) %s %s)", op, a.T, b.T, b.T, a.T), Ty: a.Ty}
	case "has": // has(m, k): key present
		m := env.eval(n.Args[0])
		u, ok := m.Ty.Underlying().(*types.Map)
		if !ok {
			return env.fail("has: not a map")
		}
		k := env.coerce(env.eval(n.Args[1]), u.Key())
		dom, _ := env.e.mapComps(u)
		return TV{T: sel(sel(c.Get(env.st, dom), m.T), k.T), Ty: boolT}
	case "held": // ghost hold count of a mutex (mathint): -1 write, n>0 read holds
		a := env.evalAddr(n.Args[0])
		if a == nil {
			return env.fail("held: not a mutex lvalue: %s", exprString(n.Args[0]))
		}
		env.e.declHeld()
		return TV{T: sel(c.Get(env.st, "$held"), env.e.muId(a)), Ty: ghostIntType}
	case "ghost": // ghost("$name") as mathint
		if bl, ok := n.Args[0].(*ast.BasicLit); ok {
			name, _ := strconv.Unquote(bl.Value)
			srt := "Int"
			var ty types.Type = ghostIntType
			if len(n.Args) > 1 {
				ty = env.typeExpr(n.Args[1])
				srt = env.sortOf(ty)
			}
			c.DeclComp(name, srt)
			return TV{T: c.Get(env.st, name), Ty: ty}
		}
	case "ncalls": // ncalls() total backend calls, ncalls("File.Mkdir")
		name := "$ncalls"
		if len(n.Args) == 1 {
			if bl, ok := n.Args[0].(*ast.BasicLit); ok {
				s, _ := strconv.Unquote(bl.Value)
				// interface methods ("File.Mkdir") are part of the backend call log;
				// calls of /repo functions and function parameters are counted per
				// invocation of the function under verification ($c.)
				if strings.HasPrefix(s, "local:") {
					// per-invocation counter of an interface method whose name
					// looks like a backend method (ncalls("local:ReadCloser.Close"))
					name = "$c." + strings.TrimPrefix(s, "local:")
					if c.countersUsed == nil {
						c.countersUsed = map[string]bool{}
					}
					c.countersUsed[name] = true
				} else if ifaceMethodRe.MatchString(s) {
					name = "$n." + s
				} else {
					name = "$c." + s
					if c.countersUsed == nil {
						c.countersUsed = map[string]bool{}
					}
					c.countersUsed[name] = true
				}
			}
		}
		c.DeclComp(name, "Int")
		return TV{T: c.Get(env.st, name), Ty: ghostIntType}
	case "typeis": // typeis(x, T): dynamic type of interface value x is T
		v := env.eval(n.Args[0])
		t := env.typeExpr(n.Args[1])
		if t == nil {
			return env.fail("typeis: unknown type %s", exprString(n.Args[1]))
		}
		return TV{T: eq("(i.type "+v.T+")", c.TypeTag(t)), Ty: boolT}
	case "unbox": // unbox(x, T): the T stored in interface x
		v := env.eval(n.Args[0])
		t := env.typeExpr(n.Args[1])
		if t == nil {
			return env.fail("unbox: unknown type %s", exprString(n.Args[1]))
		}
		return TV{T: c.Unbox(t, "(i.val "+v.T+")"), Ty: t}
	case "box": // box(v): interface value holding v (typed)
		v := env.defaultType(env.eval(n.Args[0]))
		return TV{T: fmt.Sprintf("(mk-iface %s %s)", c.TypeTag(v.Ty), c.Box(v.Ty, v.T)), Ty: types.Universe.Lookup("error").Type()}
	case "bit": // bit(x, k) as bool
		v := env.defaultType(env.eval(n.Args[0]))
		k := env.eval(n.Args[1])
		ki, _ := constant.Int64Val(k.Const)
		return TV{T: fmt.Sprintf("(= ((_ extract %d %d) %s) #b1)", ki, ki, v.T), Ty: boolT}
	}
	// defined spec functions
	if d, ok := env.e.p.cs.Defines[fname]; ok {
		return env.applyDefine(d, n.Args)
	}
	// a real function of /repo marked inline (pure): unfolded from its SSA
	if fn := env.resolveFunc(fname); fn != nil {
		k := env.e.p.FuncContract(fn)
		if k == nil || !k.Inline {
			return env.fail("spec calls %s, which is not marked inline", fname)
		}
		var args []Val
		for i, a := range n.Args {
			if i >= len(fn.Params) {
				return env.fail("too many arguments to %s", fname)
			}
			v := env.eval(a)
			if v.Ty == nil {
				v = env.coerce(v, fn.Params[i].Type())
			}
			if env.e.c.Sort(v.Ty) != env.e.c.Sort(fn.Params[i].Type()) {
				return env.fail("argument %d of %s has type %s, want %s", i, fname, v.Ty, fn.Params[i].Type())
			}
			args = append(args, Val{T: v.T})
		}
		oc := env.e.inline(env.e.root, fn, args, nil, env.st.Clone(), "true")
		if len(oc.Results) == 0 {
			return env.fail("%s returns nothing", fname)
		}
		if len(oc.Results) > 1 {
			env.vars[fname+"#1"] = TV{T: oc.Results[1].T, Ty: fn.Signature.Results().At(1).Type()}
		}
		return TV{T: oc.Results[0].T, Ty: fn.Signature.Results().At(0).Type()}
	}
	return env.fail("unknown spec function %s", exprString(n.Fun))
}

func (env *Env) bvToInt(v string, w int, signed bool) string {
	// exact: sum of bits is avoided; use bv2nat (only in functions that opt in to mathint)
	if signed {
		return fmt.Sprintf("(ite (bvslt %s %s) (- (bv2nat %s) %s) (bv2nat %s))", v, bvLit(w, 0), v, pow2(w), v)
	}
	return "(bv2nat " + v + ")"
}

func pow2(w int) string {
	s := "1"
	// decimal 2^w for w <= 64
	var x uint64 = 1
	if w < 64 {
		x <<= uint(w)
		return fmt.Sprint(x)
	}
	_ = s
	return "18446744073709551616"
}

func (env *Env) applyDefine(d *Define, args []ast.Expr) TV {
	if len(args) != len(d.Params) {
		return env.fail("%s: wrong number of arguments", d.Name)
	}
	var avs []TV
	for i, a := range args {
		pt := env.lookupType(d.PTypes[i])
		if pt == nil {
			return env.fail("%s: unknown parameter type %s", d.Name, d.PTypes[i])
		}
		v := env.noSkolem().eval(a)
		if v.Ty == nil {
			v = env.coerce(v, pt)
		}
		avs = append(avs, TV{T: v.T, Ty: pt})
	}
	return env.applyDefineTV(d, avs)
}

func (env *Env) applyDefineTV(d *Define, avs []TV) TV {
	c := env.e.c
	rt := env.lookupType(d.RType)
	if rt == nil {
		return env.fail("%s: unknown result type %s", d.Name, d.RType)
	}
	if d.Uninterpreted {
		var ps, as []string
		for i := range avs {
			ps = append(ps, env.sortOf(avs[i].Ty))
			as = append(as, avs[i].T)
		}
		name := "spec." + d.Name
		c.Decl(name, fmt.Sprintf("(declare-fun %s (%s) %s)", q(name), strings.Join(ps, " "), env.sortOf(rt)))
		if len(as) == 0 {
			return TV{T: q(name), Ty: rt}
		}
		return TV{T: fmt.Sprintf("(%s %s)", q(name), strings.Join(as, " ")), Ty: rt}
	}
	sub := *env
	sub.vars = map[string]TV{}
	for i, p := range d.Params {
		sub.vars[p] = avs[i]
	}
	r := sub.eval(d.Body)
	if r.Ty == nil {
		r = env.coerce(r, rt)
	}
	return TV{T: r.T, Ty: rt}
}

// resolveFunc finds a function of the module by spec name: F, T.M, pkg.F, pkg.T.M
func (env *Env) resolveFunc(name string) *ssa.Function {
	parts := strings.Split(name, ".")
	pkgs := []string{}
	if env.pkg != nil {
		pkgs = append(pkgs, env.pkg.Pkg.Name())
	}
	if len(parts) > 1 {
		if _, ok := env.e.p.pkgs[parts[0]]; ok {
			pkgs = []string{parts[0]}
			parts = parts[1:]
		}
	}
	for _, pk := range pkgs {
		var cands []string
		switch len(parts) {
		case 1:
			cands = []string{pk + "." + parts[0]}
		case 2:
			cands = []string{pk + ".(" + parts[0] + ")." + parts[1], pk + ".(*" + parts[0] + ")." + parts[1]}
		}
		for _, c := range cands {
			if fn, ok := env.e.p.funcs[c]; ok {
				return fn
			}
		}
	}
	return nil
}

// evalGoal evaluates a clause in goal position: leading universal quantifiers
// (through &&, the consequent of ==>, and spec definitions) become fresh
// constants, which keeps the refutation query quantifier-free on the goal side.
func (env *Env) evalGoal(x ast.Expr) string {
	n := *env
	n.skolem = true
	return n.evalBool(x)
}

func seqDrop(s string, k int) string {
	for i := 0; i < k; i++ {
		s = "(bq.tail " + s + ")"
	}
	return s
}

// seqRebuild: cons(head s, cons(head(tail s), ... tail^k s))
func seqRebuild(s string, k int) string {
	t := seqDrop(s, k)
	for i := k - 1; i >= 0; i-- {
		t = "(bq.cons (bq.head " + seqDrop(s, i) + ") " + t + ")"
	}
	return t
}

// seqLen16: the little-endian 16-bit value of the first two bytes, as int
func seqLen16(s string) string {
	return "((_ zero_extend 48) (concat (bq.head (bq.tail " + s + ")) (bq.head " + s + ")))"
}

// intArg evaluates an integer argument and converts it to width w (named
// integer types are accepted; wider values are truncated explicitly by the
// contract author through a conversion).
func (env *Env) intArg(x ast.Expr, w int) string {
	v := env.eval(x)
	if v.Ty == nil {
		v = env.coerce(v, map[int]types.Type{8: types.Typ[types.Uint8], 16: types.Typ[types.Uint16], 32: types.Typ[types.Uint32], 64: types.Typ[types.Uint64]}[w])
	}
	vw, _, ok := isInt(v.Ty)
	if !ok {
		env.fail("integer expected in %s", exprString(x))
		return bvLit(w, 0)
	}
	if vw != w {
		env.fail("%s has width %d, want %d", exprString(x), vw, w)
		return bvLit(w, 0)
	}
	return v.T
}

// sliceAndArray evaluates a slice-typed argument and returns the slice term
// and the term of its element array in the state the argument refers to
// (old(...) arguments use the old heap).
func (env *Env) sliceAndArray(x ast.Expr) (string, string) {
	e2 := env.noSkolem()
	if ce, ok := x.(*ast.CallExpr); ok {
		if id, ok := ce.Fun.(*ast.Ident); ok && id.Name == "old" && len(ce.Args) == 1 {
			e2 = e2.with(env.old)
			x = ce.Args[0]
		}
	}
	v := e2.eval(x)
	if v.Ty == nil {
		return "", ""
	}
	sl, ok := v.Ty.Underlying().(*types.Slice)
	if !ok {
		return "", ""
	}
	return v.T, sel(env.e.c.Get(e2.st, env.e.elemComp(sl.Elem())), "(s.arr "+v.T+")")
}

func stripOld(x ast.Expr) ast.Expr {
	if ce, ok := x.(*ast.CallExpr); ok {
		if id, ok := ce.Fun.(*ast.Ident); ok && id.Name == "old" && len(ce.Args) == 1 {
			return ce.Args[0]
		}
	}
	return x
}


// splitForall: "(forall (BINDERS) BODY)" -> BINDERS, BODY.
func splitForall(t string) (string, string, bool) {
	const pre = "(forall ("
	if !strings.HasPrefix(t, pre) || !strings.HasSuffix(t, ")") {
		return "", "", false
	}
	depth, i := 1, len(pre)
	for ; i < len(t) && depth > 0; i++ {
		switch t[i] {
		case '(':
			depth++
		case ')':
			depth--
		case '|':
			// quoted symbol: skip to the closing bar
			for i++; i < len(t) && t[i] != '|'; i++ {
			}
		}
	}
	if depth != 0 || i >= len(t) {
		return "", "", false
	}
	binders := t[len(pre) : i-1]
	body := strings.TrimSpace(t[i : len(t)-1])
	if strings.HasPrefix(body, "(!") {
		return "", "", false // annotated body: leave it alone
	}
	return binders, body, true
}


func binderNames(binders string) []string {
	var out []string
	for _, m := range regexp.MustCompile(`\((\|[^|]*\|) `).FindAllStringSubmatch(binders, -1) {
		out = append(out, m[1])
	}
	return out
}

// withPattern: when the body reads an array at an absolute index that is one
// of the bound variables ((select ARR v), the rawelem form), that read is the
// natural trigger: (! body :pattern (read)). The read must mention every bound
// variable. Quantifiers of any other shape are left to the solver.
func withPattern(body string, vars []string) string {
	best := ""
	perVar := map[string]string{}
	for _, v := range vars {
		needle := " " + v + ")"
		for from := 0; ; {
			i := strings.Index(body[from:], needle)
			if i < 0 {
				break
			}
			end := from + i + len(needle) // just after the ')' closing the candidate
			from = end
			// walk back to the matching '('
			depth, j := 0, end-1
			for ; j >= 0; j-- {
				if body[j] == ')' {
					depth++
				} else if body[j] == '(' {
					depth--
					if depth == 0 {
						break
					}
				}
			}
			if j < 0 {
				continue
			}
			term := body[j:end]
			if !strings.HasPrefix(term, "(select ") || strings.Contains(term, "forall") {
				continue
			}
			if perVar[v] == "" || len(term) < len(perVar[v]) {
				perVar[v] = term
			}
			all := true
			for _, w := range vars {
				if !strings.Contains(term, w) {
					all = false
				}
			}
			if all && (best == "" || len(term) < len(best)) {
				best = term
			}
		}
	}
	if best == "" {
		// no single read mentions every variable: a multi-pattern of one
		// read per variable, when each variable has one
		var parts []string
		for _, v := range vars {
			if perVar[v] == "" {
				return body
			}
			parts = append(parts, perVar[v])
		}
		return "(! " + body + " :pattern (" + strings.Join(parts, " ") + "))"
	}
	return "(! " + body + " :pattern (" + best + "))"
}

var boundVarRe = regexp.MustCompile(`\|[A-Za-z_0-9.]*![0-9]+\|`)
