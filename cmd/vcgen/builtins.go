package main

import (
	"fmt"
	"go/types"
	"strings"

	"golang.org/x/tools/go/ssa"
)

func (e *Eval) builtin(fr *Frame, cc *ssa.CallCommon, b *ssa.Builtin, args []Val, st *State, cur, site string, panicking bool) Outcome {
	c := e.c
	ret := func(res ...Val) Outcome {
		return Outcome{NormalCond: cur, St: st, Results: res, PanicCond: "false", PanicSt: st}
	}
	switch b.Name() {
	case "len", "cap":
		t := cc.Args[0].Type()
		switch u := t.Underlying().(type) {
		case *types.Slice:
			if b.Name() == "len" {
				return ret(Val{T: "(s.len " + args[0].T + ")"})
			}
			return ret(Val{T: "(s.cap " + args[0].T + ")"})
		case *types.Basic:
			return ret(Val{T: "(gs.len " + args[0].T + ")"})
		case *types.Map:
			dom, _ := e.mapComps(u)
			ks := c.Sort(u.Key())
			name := "card." + sanitize(ks)
			c.Decl(name, fmt.Sprintf("(declare-fun %s ((Array %s Bool)) (_ BitVec 64))\n(assert (forall ((d (Array %s Bool))) (! (and (bvsge (%s d) #x0000000000000000) (= (= (%s d) #x0000000000000000) (forall ((k %s)) (not (select d k))))) :pattern ((%s d)))))", q(name), ks, ks, q(name), q(name), ks, q(name)))
			return ret(Val{T: fmt.Sprintf("(%s %s)", q(name), sel(c.Get(st, dom), args[0].T))})
		case *types.Pointer: // *[N]T
			if at, ok := u.Elem().Underlying().(*types.Array); ok {
				return ret(Val{T: bvLit(64, uint64(at.Len()))})
			}
		case *types.Array:
			return ret(Val{T: bvLit(64, uint64(u.Len()))})
		}
		c.Unsupported("len/cap of %s", t)
		return ret(e.havocVal(site, types.Typ[types.Int], cur))
	case "append":
		return ret(e.appendOp(fr, cc, args, st, cur, site))
	case "copy":
		return ret(e.copyOp(fr, cc, args, st, cur, site))
	case "delete":
		u := cc.Args[0].Type().Underlying().(*types.Map)
		dom, _ := e.mapComps(u)
		pre := st.Clone()
		d := c.Get(st, dom)
		c.Set(st, dom, sto(d, args[0].T, sto(sel(d, args[0].T), args[1].T, "false")))
		e.tableUpdate(st, u, args[0].T, args[1].T, "", pre)
		e.afterMapUpdate(fr, st, u, args[0].T, cur, nil)
		return ret()
	case "close":
		e.ghostEvent(st, "close", args[0].T)
		c.DeclComp("$closed", "(Array Int Bool)")
		c.Set(st, "$closed", sto(c.Get(st, "$closed"), args[0].T, "true"))
		return ret()
	case "recover":
		if !panicking && !fr.panicking {
			return ret(Val{T: "(mk-iface 0 0)"})
		}
		c.DeclComp("$recovered", "Bool")
		c.Set(st, "$recovered", "true")
		v := e.havocVal(site+".recovered", cc.Signature().Results().At(0).Type(), cur)
		return ret(v)
	case "print", "println":
		return ret()
	case "ssa:wrapnilchk":
		return ret(args[0])
	case "min", "max":
		t := cc.Args[0].Type()
		_, signed, _ := isInt(t)
		r := args[0].T
		for _, a := range args[1:] {
			op := "bvule"
			if signed {
				op = "bvsle"
			}
			if b.Name() == "max" {
				r = fmt.Sprintf("(ite (%s %s %s) %s %s)", op, r, a.T, a.T, r)
			} else {
				r = fmt.Sprintf("(ite (%s %s %s) %s %s)", op, r, a.T, r, a.T)
			}
		}
		return ret(Val{T: c.Define(site, c.Sort(t), r)})
	}
	c.Unsupported("builtin %s", b.Name())
	return ret(e.resultHavoc(site, cc.Signature(), cur)...)
}

// appendOp models append(s, t...) exactly: in place when capacity allows,
// otherwise a fresh backing array.
func (e *Eval) appendOp(fr *Frame, cc *ssa.CallCommon, args []Val, st *State, cur, site string) Val {
	c := e.c
	s := args[0].T
	elem := cc.Args[0].Type().Underlying().(*types.Slice).Elem()
	es := c.Sort(elem)
	comp := e.elemComp(elem)
	h := c.Get(st, comp)
	var n string
	var srcAt func(i string) string
	switch cc.Args[1].Type().Underlying().(type) {
	case *types.Slice:
		t := args[1].T
		n = "(s.len " + t + ")"
		srcAt = func(i string) string {
			return sel(sel(h, "(s.arr "+t+")"), "(bvadd (s.off "+t+") "+i+")")
		}
	default: // string
		t := args[1].T
		n = "(gs.len " + t + ")"
		srcAt = func(i string) string { return "(gs.at " + t + " " + i + ")" }
	}
	n = c.Define(site+".n", bvSort(64), n)
	newLen := c.Define(site+".len", bvSort(64), "(bvadd (s.len "+s+") "+n+")")
	fits := c.Define(site+".fits", "Bool", "(bvsle "+newLen+" (s.cap "+s+"))")
	fresh := e.freshRef(site + ".arr")
	newCap := c.Fresh(site+".cap", bvSort(64))
	c.Assert(and("(bvsle "+newLen+" "+newCap+")", "(bvslt "+newCap+" #x0001000000000000)"))
	arr := c.Define(site+".a", "Int", ite(fits, "(s.arr "+s+")", fresh))
	off := c.Define(site+".o", bvSort(64), ite(fits, "(s.off "+s+")", bvLit(64, 0)))
	// new contents of the target array
	na := c.Fresh(site+".elems", fmt.Sprintf("(Array (_ BitVec 64) %s)", es))
	old := sel(h, "(s.arr "+s+")")
	i := "i"
	inOld := fmt.Sprintf("(and (bvsle %s %s) (bvslt %s (bvadd %s (s.len %s))))", off, i, i, off, s)
	inNew := fmt.Sprintf("(and (bvsle (bvadd %s (s.len %s)) %s) (bvslt %s (bvadd %s %s)))", off, s, i, i, off, newLen)
	oldAt := fmt.Sprintf("(select %s (bvadd (s.off %s) (bvsub %s %s)))", old, s, i, off)
	srcI := srcAt(fmt.Sprintf("(bvsub %s (bvadd %s (s.len %s)))", i, off, s))
	other := ite(fits, "(select "+old+" "+i+")", c.Zero(elem))
	c.Assert(fmt.Sprintf("(forall ((i (_ BitVec 64))) (! (= (select %s i) (ite %s %s (ite %s %s %s))) :pattern ((select %s i))))", na, inNew, srcI, inOld, oldAt, other, na))
	c.Set(st, comp, sto(h, arr, na))
	cp := ite(fits, "(s.cap "+s+")", newCap)
	return Val{T: c.Define(site, "Slice", fmt.Sprintf("(mk-slice %s %s %s %s)", arr, off, newLen, cp))}
}

func (e *Eval) copyOp(fr *Frame, cc *ssa.CallCommon, args []Val, st *State, cur, site string) Val {
	c := e.c
	d := args[0].T
	elem := cc.Args[0].Type().Underlying().(*types.Slice).Elem()
	es := c.Sort(elem)
	comp := e.elemComp(elem)
	h := c.Get(st, comp)
	var sl string
	var srcAt func(i string) string
	switch cc.Args[1].Type().Underlying().(type) {
	case *types.Slice:
		t := args[1].T
		sl = "(s.len " + t + ")"
		srcAt = func(i string) string { return sel(sel(h, "(s.arr "+t+")"), "(bvadd (s.off "+t+") "+i+")") }
	default:
		t := args[1].T
		sl = "(gs.len " + t + ")"
		srcAt = func(i string) string { return "(gs.at " + t + " " + i + ")" }
	}
	n := c.Define(site+".n", bvSort(64), fmt.Sprintf("(ite (bvsle (s.len %s) %s) (s.len %s) %s)", d, sl, d, sl))
	na := c.Fresh(site+".elems", fmt.Sprintf("(Array (_ BitVec 64) %s)", es))
	old := sel(h, "(s.arr "+d+")")
	in := fmt.Sprintf("(and (bvsle (s.off %s) i) (bvslt i (bvadd (s.off %s) %s)))", d, d, n)
	c.Assert(fmt.Sprintf("(forall ((i (_ BitVec 64))) (! (= (select %s i) (ite %s %s (select %s i))) :pattern ((select %s i))))", na, in, srcAt("(bvsub i (s.off "+d+"))"), old, na))
	c.Set(st, comp, sto(h, "(s.arr "+d+")", na))
	return Val{T: n}
}

func (e *Eval) syncMapComps(base string) (string, string) {
	dom, val := "$sm."+base+".dom", "$sm."+base+".val"
	e.c.DeclComp(dom, "(Array Iface Bool)")
	e.c.DeclComp(val, "(Array Iface Iface)")
	return dom, val
}

// hardcoded semantics for a few library functions that operate on addresses
// (mutexes, atomics, byte order). Everything else outside /repo needs an
// `extern` contract.
func (e *Eval) hardcoded(fr *Frame, cc *ssa.CallCommon, fn *ssa.Function, args []Val, st *State, cur, site string) (Outcome, bool) {
	c := e.c
	name := fn.String()
	ret := func(res ...Val) (Outcome, bool) {
		return Outcome{NormalCond: cur, St: st, Results: res, PanicCond: "false", PanicSt: st}, true
	}
	lockProps := []string{"C15", "C16"}
	switch name {
	case "(*sync.RWMutex).RLock", "(*sync.RWMutex).RUnlock", "(*sync.RWMutex).Lock", "(*sync.RWMutex).Unlock", "(*sync.Mutex).Lock", "(*sync.Mutex).Unlock":
		c.Assume("sync.Mutex/RWMutex: ghost hold counts per invocation; mutual exclusion and blocking are not modelled")
		if args[0].A == nil {
			c.Unsupported("mutex operation on opaque pointer in %s", fr.fn)
			return ret()
		}
		e.declHeld()
		mu := e.muId(args[0].A)
		h := sel(c.Get(st, "$held"), mu)
		op := name[strings.LastIndex(name, ".")+1:]
		kind := strings.ToLower(op)
		switch kind {
		case "rlock":
			e.oblige("lock@"+site+"/not-held", "lock", lockProps, cur, eq(h, "0"), "RLock requires the mutex not to be held by this invocation (no recursive read lock)", "")
		case "lock":
			e.oblige("lock@"+site+"/not-held", "lock", lockProps, cur, eq(h, "0"), "Lock requires the mutex not to be held by this invocation", "")
		case "runlock":
			e.oblige("lock@"+site+"/read-held", "lock", lockProps, cur, "(>= "+h+" 1)", "RUnlock requires a read hold", "")
		case "unlock":
			e.oblige("lock@"+site+"/write-held", "lock", lockProps, cur, eq(h, "(- 1)"), "Unlock requires the write hold", "")
		}
		e.lockOrder(fr, st, cur, site, kind, args[0].A, mu)
		// (the lock-state obligations above are not assumed afterwards, for
		// the same reason as callee preconditions: no masking)
		e.lockEffect(st, kind, mu)
		return ret()
	case "sync/atomic.AddInt64", "sync/atomic.AddInt32", "sync/atomic.AddUint32", "sync/atomic.AddUint64":
		c.Assume("sync/atomic: sequential semantics (linearizability trusted)")
		t := cc.Args[1].Type()
		nv := c.Define(site, c.Sort(t), "(bvadd "+e.load(st, args[0], t)+" "+args[1].T+")")
		e.store(st, args[0], t, nv)
		if a := args[0].A; a != nil && a.Kind == "field" && len(a.Path) == 0 {
			if r := e.ruleFor(a.Comp); r != nil && r.Kind == "refcount" {
				e.declOwed()
				w, _, _ := isInt(t)
				if d, ok := bvLitValue(args[1].T, w); ok {
					o := c.Get(st, "$owed")
					if d > 0 && e.iterRefs[a.Base] {
						// IncRef on a reference that was only found in the tree:
						// its count may already be zero (it is being destroyed);
						// only TryIncRef may pin it
						e.oblige("refs@"+site+"/never-resurrects-a-reference-found-in-the-tree", "refcount", r.Props, cur, "false", "a reference found by iterating the path tree may be dead: it is pinned with TryIncRef (which refuses a zero count), never with an unconditional increment", r.Where)
					}
					if d < 0 {
						e.oblige("refs@"+site+"/drops-only-held-reference", "refcount", r.Props, cur, "(>= "+sel(o, a.Base)+" 1)", "a reference is dropped only by an invocation that holds one (acquired by lookup / IncRef / creation, or taken over from a table entry or link)", r.Where)
					}
					c.Set(st, "$owed", sto(o, a.Base, fmt.Sprintf("(+ %s %s)", sel(o, a.Base), smtInt(d))))
				} else {
					c.Unsupported("atomic add of a non-constant to a reference count in %s", fr.fn)
				}
			}
		}
		return ret(Val{T: nv})
	case "sync/atomic.LoadInt64", "sync/atomic.LoadInt32", "sync/atomic.LoadUint32", "sync/atomic.LoadUint64":
		c.Assume("sync/atomic: sequential semantics (linearizability trusted)")
		t := cc.Signature().Results().At(0).Type()
		return ret(Val{T: c.Define(site, c.Sort(t), e.load(st, args[0], t))})
	case "sync/atomic.StoreInt64", "sync/atomic.StoreInt32", "sync/atomic.StoreUint32", "sync/atomic.StoreUint64":
		c.Assume("sync/atomic: sequential semantics (linearizability trusted)")
		e.store(st, args[0], cc.Args[1].Type(), args[1].T)
		return ret()
	case "sync/atomic.CompareAndSwapInt64", "sync/atomic.CompareAndSwapInt32", "sync/atomic.CompareAndSwapUint32", "sync/atomic.CompareAndSwapUint64":
		c.Assume("sync/atomic: sequential semantics (linearizability trusted)")
		t := cc.Args[1].Type()
		old := e.load(st, args[0], t)
		ok := c.Define(site, "Bool", eq(old, args[1].T))
		e.store(st, args[0], t, ite(ok, args[2].T, old))
		if a := args[0].A; a != nil && a.Kind == "field" && len(a.Path) == 0 {
			if r := e.ruleFor(a.Comp); r != nil && r.Kind == "refcount" {
				// a successful swap of a reference count: the invocation
				// holds (new - old) more references
				e.declOwed()
				c.Decl("bv2int_signed", "(define-fun bv2int_signed ((x (_ BitVec 64))) Int (ite (bvslt x #x0000000000000000) (- (bv2nat x) 18446744073709551616) (bv2nat x)))")
				o := c.Get(st, "$owed")
				// (the common +1 / -1 swaps are recognised without integer conversion)
				w, _, _ := isInt(t)
				d := fmt.Sprintf("(ite (= %s (bvadd %s %s)) 1 (ite (= %s (bvsub %s %s)) (- 1) (- (bv2int_signed %s) (bv2int_signed %s))))",
					args[2].T, args[1].T, bvLit(w, 1), args[2].T, args[1].T, bvLit(w, 1), args[2].T, args[1].T)
				c.Set(st, "$owed", ite(ok, sto(o, a.Base, fmt.Sprintf("(+ %s %s)", sel(o, a.Base), d)), o))
			}
		}
		return ret(Val{T: ok})
	case "(encoding/binary.littleEndian).Uint16", "(encoding/binary.littleEndian).Uint32", "(encoding/binary.littleEndian).Uint64":
		c.Assume("encoding/binary.LittleEndian.UintN: byte k of the slice is bits 8k..8k+7 (and panics when the slice is shorter)")
		n := map[string]int{"16": 2, "32": 4, "64": 8}[name[len(name)-2:]]
		s := args[1].T
		e.safetyObFn(fr, "binary.Uint", cur, fmt.Sprintf("(bvsge (s.len %s) %s)", s, bvLit(64, uint64(n))))
		h := sel(c.Get(st, e.elemComp(types.Typ[types.Byte])), "(s.arr "+s+")")
		t := ""
		for k := 0; k < n; k++ {
			b := sel(h, fmt.Sprintf("(bvadd (s.off %s) %s)", s, bvLit(64, uint64(k))))
			if k == 0 {
				t = b
			} else {
				t = "(concat " + b + " " + t + ")"
			}
		}
		return ret(Val{T: c.Define(site, bvSort(8*n), t)})
	case "(encoding/binary.littleEndian).PutUint16", "(encoding/binary.littleEndian).PutUint32", "(encoding/binary.littleEndian).PutUint64":
		c.Assume("encoding/binary.LittleEndian.PutUintN: byte k of the slice becomes bits 8k..8k+7 (and panics when the slice is shorter)")
		n := map[string]int{"16": 2, "32": 4, "64": 8}[name[len(name)-2:]]
		s := args[1].T
		e.safetyObFn(fr, "binary.PutUint", cur, fmt.Sprintf("(bvsge (s.len %s) %s)", s, bvLit(64, uint64(n))))
		comp := e.elemComp(types.Typ[types.Byte])
		h := c.Get(st, comp)
		a := sel(h, "(s.arr "+s+")")
		for k := 0; k < n; k++ {
			a = sto(a, fmt.Sprintf("(bvadd (s.off %s) %s)", s, bvLit(64, uint64(k))), fmt.Sprintf("((_ extract %d %d) %s)", 8*k+7, 8*k, args[2].T))
		}
		c.Set(st, comp, sto(h, "(s.arr "+s+")", a))
		return ret()
	case "(*sync.Map).Load", "(*sync.Map).LoadOrStore", "(*sync.Map).Store":
		// sync.Map: a ghost map from interface values (compared with ==:
		// pointers by address, structs by value) to interface values;
		// sequential semantics (linearizability of sync.Map trusted)
		c.Assume("sync.Map: sequential map from interface keys (Go ==) to interface values; linearizability trusted")
		if args[0].A == nil || args[0].A.Kind != "cell" {
			c.Unsupported("sync.Map that is not a package-level variable in %s", fr.fn)
			return Outcome{}, false
		}
		dom, val := e.syncMapComps(args[0].A.Comp)
		d, v := c.Get(st, dom), c.Get(st, val)
		key := args[1].T
		e.ghostCount(st, "$c."+name)
		switch name {
		case "(*sync.Map).Load":
			ok := c.Define(site+".ok", "Bool", sel(d, key))
			r := c.Define(site+".v", "Iface", ite(ok, sel(v, key), "(mk-iface 0 0)"))
			return ret(Val{T: r}, Val{T: ok})
		case "(*sync.Map).Store":
			c.Set(st, dom, sto(d, key, "true"))
			c.Set(st, val, sto(v, key, args[2].T))
			return ret()
		default:
			loaded := c.Define(site+".loaded", "Bool", sel(d, key))
			actual := c.Define(site+".actual", "Iface", ite(loaded, sel(v, key), args[2].T))
			c.Set(st, dom, sto(d, key, "true"))
			c.Set(st, val, sto(v, key, actual))
			return ret(Val{T: actual}, Val{T: loaded})
		}
	case "(*sync/atomic.Uint64).Add", "(*sync/atomic.Uint64).Load", "(*sync/atomic.Uint64).Store":
		c.Assume("sync/atomic: sequential semantics (linearizability trusted)")
		if args[0].A == nil || args[0].A.Kind != "cell" {
			c.Unsupported("atomic.Uint64 that is not a package-level variable in %s", fr.fn)
			return Outcome{}, false
		}
		comp := "$au." + args[0].A.Comp
		c.DeclComp(comp, bvSort(64))
		switch name {
		case "(*sync/atomic.Uint64).Add":
			nv := c.Define(site, bvSort(64), "(bvadd "+c.Get(st, comp)+" "+args[1].T+")")
			c.Set(st, comp, nv)
			return ret(Val{T: nv})
		case "(*sync/atomic.Uint64).Load":
			return ret(Val{T: c.Get(st, comp)})
		default:
			c.Set(st, comp, args[1].T)
			return ret()
		}
	case "(*sync.WaitGroup).Add":
		c.Assume("sync.WaitGroup: ghost counter; Wait's blocking is not modelled")
		c.DeclComp("$wg", "Int")
		c.Set(st, "$wg", "(+ "+c.Get(st, "$wg")+" (bv2int_signed "+args[1].T+"))")
		c.Decl("bv2int_signed", "(define-fun bv2int_signed ((x (_ BitVec 64))) Int (ite (bvslt x #x0000000000000000) (- (bv2nat x) 18446744073709551616) (bv2nat x)))")
		return ret()
	case "(*sync.WaitGroup).Done":
		c.DeclComp("$wg", "Int")
		c.Set(st, "$wg", "(- "+c.Get(st, "$wg")+" 1)")
		return ret()
	case "(*sync.WaitGroup).Wait":
		c.DeclComp("$wg", "Int")
		e.ghostCount(st, "$waited")
		return ret()
	case "(*sync.Pool).Get":
		c.Assume("sync.Pool.Get: returns an arbitrary value (no state carried by the model)")
		return ret(e.havocVal(site, cc.Signature().Results().At(0).Type(), cur))
	case "(*sync.Pool).Put":
		// $gm.pooled[array]: 1 while a buffer sits in a pool; a Put may
		// change it for any buffer (which one is not tracked)
		c.DeclComp("$gm.pooled", "(Array Int Int)")
		c.Havoc(st, "$gm.pooled")
		e.ghostCount(st, "$c.(*sync.Pool).Put")
		return ret()
	case "runtime/debug.Stack":
		return ret(e.havocVal(site, cc.Signature().Results().At(0).Type(), cur))
	case "runtime.KeepAlive", "runtime.SetFinalizer":
		return ret()
	}
	return Outcome{}, false
}

func (e *Eval) safetyObFn(fr *Frame, kind, cur, goal string) {
	if len(e.safety) == 0 {
		return
	}
	e.oblige("safety#"+e.site(kind+"@"+shortFn(fr.fn)), "safety", e.safety, cur, goal, kind, "")
}

// lockOrder: C16 acquisition-order obligations (levels), filled in by the
// lock-level layer.
func (e *Eval) lockOrder(fr *Frame, st *State, cur, site, kind string, a *Addr, mu string) {}
