package main

// Symbolic evaluation of go/ssa functions into block-predicate verification
// conditions (see DESIGN.md section 2.4).

import (
	"fmt"
	"go/constant"
	"go/types"
	"sort"
	"strings"

	"golang.org/x/tools/go/ssa"
)

type pathStep struct {
	St  types.Type // struct type (possibly named)
	Idx int
}

// Addr is a statically structured address (never stored in the heap).
type Addr struct {
	Kind string // cell | field | elem | heapcell | array
	Comp string
	Base string
	Idx  string
	Path []pathStep
	Typ  types.Type // pointee type (after Path)
	Root types.Type // type stored at the root location
}

type Closure struct {
	Fn    *ssa.Function
	Binds []Val
}

type Val struct {
	T   string
	A   *Addr
	Clo *Closure
	Tup []Val
	Fn  *ssa.Function // static function value
	ParamFn string     // function-typed parameter of the root (name), if so
}

type namedVal struct {
	v Val
	t types.Type
}

type deferred struct {
	guard string
	call  *ssa.CallCommon
	args  []Val
	fnval Val
	site  string
}

type exitRec struct {
	cond    string
	st      *State
	results []Val
	ndefers int
}

type Frame struct {
	fn      *ssa.Function
	id      int
	vals    map[ssa.Value]Val
	free    []Val
	params  []Val
	defers  []*deferred
	normals []exitRec
	panics  []exitRec // raw panic points (defers not yet run)
	unwound []exitRec // panic exits after the deferred calls ran
	parent  *Frame
	depth   int
	// root-only
	contract *Contract
	prefix   string
	names      map[string]namedVal // source names of registers (from DebugRef)
	extraBinds map[string]TV
	panicking  bool // frame of a deferred function running while the caller unwinds
	loopInfos map[*ssa.BasicBlock]*loopInfo
	back      map[[2]int]bool
	loopSt    map[*ssa.BasicBlock]*loopState
}

type Obligation struct {
	Name   string
	Props  []string
	Kind   string
	Goal   string // boolean term that must be valid under the context prefix
	Reach  string
	Mark   int // prefix length of ctx.body
	Clause string
	Where  string
	Cover  bool // satisfiability (vacuity) query: expected sat
}

type Eval struct {
	c        *Ctx
	p        *Program
	obls     []*Obligation
	root     *Frame
	rootC    *Contract
	rootKey  string
	nact     int
	siteCnt  map[string]int
	allocs   []string
	curSt    *State // state being evaluated (allocation watermark, reference existence)
	allowedAll map[string]bool     // root modifies: whole components
	allowedIdx map[string][]string // root modifies: single locations per component
	safety   []string // props to tag safety obligations with (nil: none)
	blocking []string // props to tag no-mutex-held-while-blocking obligations with
	atMatched map[*AtClause]bool // at-clauses that matched some call site
	iterRefs  map[string]bool      // references obtained by ranging over a map keyed by references
	muTags   map[string]int
	entry    *State
	trace    bool
	callLog  []string // names of contracts applied (callee side), for evidence
	loopMods map[*ssa.BasicBlock][]string
	usedConstGlobals bool
	prov     map[string]string // interface term loaded from fidRef.file -> the fidRef
	provGhost map[string]bool  // provenance that is a ghost parameter (may be 0 = none)
	mapFrom   map[string]string // map term -> field component it was loaded from
	rootPkg   *ssa.Package
	logicals  map[string]TV
}

func NewEval(p *Program) *Eval {
	e := &Eval{p: p, siteCnt: map[string]int{}, muTags: map[string]int{}, prov: map[string]string{}, provGhost: map[string]bool{}, mapFrom: map[string]string{}, atMatched: map[*AtClause]bool{}}
	e.c = NewCtx(p)
	return e
}

func (e *Eval) oblige(name, kind string, props []string, reach, goal, clause, where string) {
	if len(props) == 0 {
		return
	}
	// split (=> A (and c1 .. ck)) and (and c1 .. ck) into one obligation per conjunct
	parts := splitGoal(goal)
	if len(parts) == 1 {
		e.obls = append(e.obls, &Obligation{Name: name, Props: props, Kind: kind, Goal: goal, Reach: reach, Mark: e.c.Mark(), Clause: clause, Where: where})
		return
	}
	for i, g := range parts {
		e.obls = append(e.obls, &Obligation{Name: fmt.Sprintf("%s.%d", name, i+1), Props: props, Kind: kind, Goal: g, Reach: reach, Mark: e.c.Mark(), Clause: clause, Where: where})
	}
}

func splitGoal(g string) []string {
	if strings.HasPrefix(g, "(and ") {
		var out []string
		for _, cj := range splitAnd(g) {
			out = append(out, splitGoal(cj)...)
		}
		return out
	}
	if strings.HasPrefix(g, "(=> ") {
		args := splitAnd("(and " + g[4:])
		if len(args) == 2 {
			cons := splitGoal(args[1])
			if len(cons) > 1 {
				var out []string
				for _, cj := range cons {
					out = append(out, "(=> "+args[0]+" "+cj+")")
				}
				return out
			}
		}
	}
	return []string{g}
}

func (e *Eval) site(callee string) string {
	e.siteCnt[callee]++
	if e.siteCnt[callee] == 1 {
		return callee
	}
	return fmt.Sprintf("%s#%d", callee, e.siteCnt[callee])
}

// ---------- memory ----------

func fieldComp(st types.Type, i int) string {
	s := st.Underlying().(*types.Struct)
	return "H." + sanitize(typeKey(st)) + "." + fieldName(s, i)
}

func (e *Eval) declField(st types.Type, i int) string {
	s := st.Underlying().(*types.Struct)
	comp := fieldComp(st, i)
	e.c.DeclComp(comp, fmt.Sprintf("(Array Int %s)", e.c.Sort(s.Field(i).Type())))
	switch s.Field(i).Type().Underlying().(type) {
	case *types.Pointer, *types.Map, *types.Chan:
		e.c.ptrComps[comp] = "field"
	case *types.Slice:
		e.c.ptrComps[comp] = "slicefield"
	case *types.Interface:
		e.c.ptrComps[comp] = "ifacefield"
	}
	return comp
}

func (e *Eval) elemComp(elem types.Type) string {
	srt := e.c.Sort(elem)
	comp := "A." + sanitize(srt)
	e.c.DeclComp(comp, fmt.Sprintf("(Array Int (Array (_ BitVec 64) %s))", srt))
	return comp
}

func (e *Eval) cellHeapComp(t types.Type) string {
	srt := e.c.Sort(t)
	comp := "C." + sanitize(srt)
	e.c.DeclComp(comp, fmt.Sprintf("(Array Int %s)", srt))
	return comp
}

func (e *Eval) rootLoad(st *State, a *Addr) string {
	switch a.Kind {
	case "cell":
		return e.c.Get(st, a.Comp)
	case "field", "heapcell":
		return sel(e.c.Get(st, a.Comp), a.Base)
	case "elem":
		return sel(sel(e.c.Get(st, a.Comp), a.Base), a.Idx)
	}
	e.c.Unsupported("load through %s address", a.Kind)
	return "0"
}

func (e *Eval) rootStore(st *State, a *Addr, v string) {
	switch a.Kind {
	case "cell":
		e.c.Set(st, a.Comp, v)
	case "field", "heapcell":
		e.c.Set(st, a.Comp, sto(e.c.Get(st, a.Comp), a.Base, v))
	case "elem":
		h := e.c.Get(st, a.Comp)
		e.c.Set(st, a.Comp, sto(h, a.Base, sto(sel(h, a.Base), a.Idx, v)))
	default:
		e.c.Unsupported("store through %s address", a.Kind)
	}
}

func (e *Eval) loadAddr(st *State, a *Addr) string {
	v := e.rootLoad(st, a)
	for _, ps := range a.Path {
		v = e.c.StructSel(ps.St, ps.Idx, v)
	}
	return v
}

func (e *Eval) storeAddr(st *State, a *Addr, nv string) {
	if len(a.Path) == 0 {
		e.rootStore(st, a, nv)
		return
	}
	root := e.rootLoad(st, a)
	e.rootStore(st, a, e.updPath(root, a.Path, nv))
}

func (e *Eval) updPath(v string, path []pathStep, nv string) string {
	if len(path) == 0 {
		return nv
	}
	ps := path[0]
	inner := e.c.StructSel(ps.St, ps.Idx, v)
	return e.c.StructUpd(ps.St, ps.Idx, v, e.updPath(inner, path[1:], nv))
}

// loadObj builds the struct value of the object at ref from the field heaps.
func (e *Eval) loadObj(st *State, t types.Type, ref string) string {
	s := t.Underlying().(*types.Struct)
	fs := make([]string, s.NumFields())
	for i := range fs {
		fs[i] = sel(e.c.Get(st, e.declField(t, i)), ref)
	}
	return e.c.StructMk(t, fs)
}

func (e *Eval) storeObj(st *State, t types.Type, ref, v string) {
	s := t.Underlying().(*types.Struct)
	for i := 0; i < s.NumFields(); i++ {
		comp := e.declField(t, i)
		e.c.Set(st, comp, sto(e.c.Get(st, comp), ref, e.c.StructSel(t, i, v)))
	}
}

func isStruct(t types.Type) bool {
	_, ok := t.Underlying().(*types.Struct)
	return ok
}

// load through a pointer value of static pointee type t
func (e *Eval) load(st *State, p Val, t types.Type) string {
	if p.A != nil {
		if p.A.Kind == "array" {
			return sel(e.c.Get(st, e.elemComp(t.Underlying().(*types.Array).Elem())), p.A.Base)
		}
		return e.loadAddr(st, p.A)
	}
	if isStruct(t) {
		return e.loadObj(st, t, p.T)
	}
	return sel(e.c.Get(st, e.cellHeapComp(t)), p.T)
}

func (e *Eval) store(st *State, p Val, t types.Type, v string) {
	if p.A != nil {
		if p.A.Kind == "array" {
			comp := e.elemComp(t.Underlying().(*types.Array).Elem())
			e.c.Set(st, comp, sto(e.c.Get(st, comp), p.A.Base, v))
			return
		}
		e.storeAddr(st, p.A, v)
		return
	}
	if isStruct(t) {
		e.storeObj(st, t, p.T, v)
		return
	}
	comp := e.cellHeapComp(t)
	e.c.Set(st, comp, sto(e.c.Get(st, comp), p.T, v))
}

// Allocation watermark: object identities are integers; everything that
// exists in a state is <= that state's $top, a fresh object is > $top.
func (e *Eval) top(st *State) string {
	e.c.DeclComp("$top", "Int")
	return e.c.Get(st, "$top")
}

func (e *Eval) freshRef(prefix string) string {
	st := e.curSt
	r := e.c.Fresh(prefix, "Int")
	e.c.Assert("(> " + r + " " + e.top(st) + ")")
	e.c.Set(st, "$top", r)
	e.allocs = append(e.allocs, r)
	return r
}

// bumpTop: a callee may have allocated objects.
func (e *Eval) bumpTop(st *State) (string, string) {
	old := e.top(st)
	nt := e.c.Fresh("$top@call", "Int")
	e.c.Assert("(>= " + nt + " " + old + ")")
	st.m["$top"] = nt
	return old, nt
}

// noteVal: a reference obtained from the current state exists in it.
func (e *Eval) noteVal(t types.Type, term string) {
	if term == "" || e.curSt == nil {
		return
	}
	switch t.Underlying().(type) {
	case *types.Pointer, *types.Map, *types.Chan:
		if !strings.HasPrefix(term, "|") && !strings.HasPrefix(term, "(") {
			return
		}
		e.c.Assert("(<= " + term + " " + e.top(e.curSt) + ")")
	case *types.Slice:
		e.c.Assert("(<= (s.arr " + term + ") " + e.top(e.curSt) + ")")
	case *types.Interface:
		// pointer payloads of interface values exist as well
		e.c.Assert("(<= (i.val " + term + ") " + e.top(e.curSt) + ")")
	}
}

// closure: every reference stored in component comp (as it is in st) exists.
func (e *Eval) closureAxiom(comp, term, top string) string {
	kind, ok := e.c.ptrComps[comp]
	if !ok {
		return ""
	}
	if kind == "field" {
		return fmt.Sprintf("(forall ((x Int)) (! (<= (select %s x) %s) :pattern ((select %s x))))", term, top, term)
	}
	if kind == "slicefield" {
		return fmt.Sprintf("(forall ((x Int)) (! (<= (s.arr (select %s x)) %s) :pattern ((select %s x))))", term, top, term)
	}
	if kind == "ifacefield" {
		return fmt.Sprintf("(forall ((x Int)) (! (<= (i.val (select %s x)) %s) :pattern ((select %s x))))", term, top, term)
	}
	if kind == "mapkey" {
		return fmt.Sprintf("(forall ((m Int) (k Int)) (! (=> (select (select %s m) k) (<= k %s)) :pattern ((select (select %s m) k))))", term, top, term)
	}
	ks := strings.TrimPrefix(kind, "map:")
	return fmt.Sprintf("(forall ((m Int) (k %s)) (! (<= (select (select %s m) k) %s) :pattern ((select (select %s m) k))))", ks, term, top, term)
}

// havocComp havocs a component; references in the new value exist in st.
func (e *Eval) havocComp(st *State, comp string) {
	e.c.Havoc(st, comp)
	if ax := e.closureAxiom(comp, e.c.Get(st, comp), e.top(st)); ax != "" {
		e.c.Assert(ax)
	}
}

// typeInv returns the type invariant assumed for a havoc'd / incoming value.
func (e *Eval) typeInv(t types.Type, v string) string {
	switch u := t.Underlying().(type) {
	case *types.Slice:
		z := bvLit(64, 0)
		return and(fmt.Sprintf("(bvsle %s (s.off %s))", z, v), fmt.Sprintf("(bvsle %s (s.len %s))", z, v),
			fmt.Sprintf("(bvsle (s.len %s) (s.cap %s))", v, v), fmt.Sprintf("(>= (s.arr %s) 0)", v),
			fmt.Sprintf("(bvslt (s.cap %s) #x0001000000000000)", v), fmt.Sprintf("(bvslt (s.off %s) #x0001000000000000)", v),
			fmt.Sprintf("(=> (= (s.arr %s) 0) (= (s.cap %s) %s))", v, v, z))
	case *types.Pointer, *types.Map, *types.Chan:
		return "(>= " + v + " 0)"
	case *types.Struct:
		var cs []string
		for i := 0; i < u.NumFields(); i++ {
			switch u.Field(i).Type().Underlying().(type) {
			case *types.Slice, *types.Struct:
				cs = append(cs, e.typeInv(u.Field(i).Type(), e.c.StructSel(t, i, v)))
			}
		}
		return and(cs...)
	}
	return "true"
}

func (e *Eval) havocVal(prefix string, t types.Type, reach string) Val {
	if tup, ok := t.(*types.Tuple); ok {
		var vs []Val
		for i := 0; i < tup.Len(); i++ {
			vs = append(vs, e.havocVal(fmt.Sprintf("%s.%d", prefix, i), tup.At(i).Type(), reach))
		}
		return Val{Tup: vs}
	}
	v := e.c.Fresh(prefix, e.c.Sort(t))
	e.c.Assert(e.typeInv(t, v))
	e.noteVal(t, v)
	return Val{T: v}
}

// ---------- frames ----------

func (e *Eval) newFrame(fn *ssa.Function, parent *Frame) *Frame {
	e.nact++
	fr := &Frame{fn: fn, id: e.nact, vals: map[ssa.Value]Val{}, parent: parent}
	if parent != nil && parent.fn != nil {
		fr.depth = parent.depth + 1
	}
	fr.prefix = fmt.Sprintf("a%d.", fr.id)
	return fr
}

func (e *Eval) constVal(k *ssa.Const) Val {
	t := k.Type()
	if k.Value == nil {
		return Val{T: e.c.Zero(t)}
	}
	switch u := t.Underlying().(type) {
	case *types.Basic:
		if w, _ := intWidth(u); w != 0 {
			if i, ok := constant.Int64Val(constant.ToInt(k.Value)); ok {
				return Val{T: bvLit(w, uint64(i))}
			}
			if i, ok := constant.Uint64Val(constant.ToInt(k.Value)); ok {
				return Val{T: bvLit(w, i)}
			}
		}
		switch u.Kind() {
		case types.Bool, types.UntypedBool:
			if constant.BoolVal(k.Value) {
				return Val{T: "true"}
			}
			return Val{T: "false"}
		case types.String, types.UntypedString:
			return Val{T: e.c.StrLit(constant.StringVal(k.Value))}
		}
	}
	e.c.Unsupported("constant %s of type %s", k, t)
	return Val{T: e.c.Zero(t)}
}

func (e *Eval) val(fr *Frame, v ssa.Value) Val {
	switch x := v.(type) {
	case *ssa.Const:
		return e.constVal(x)
	case *ssa.Function:
		return Val{Fn: x, T: "0"}
	case *ssa.Global:
		comp := "G." + x.Pkg.Pkg.Name() + "." + x.Name()
		pt := x.Type().(*types.Pointer).Elem()
		e.c.DeclComp(comp, e.c.Sort(pt))
		return Val{A: &Addr{Kind: "cell", Comp: comp, Typ: pt, Root: pt}}
	case *ssa.FreeVar:
		for i, fv := range fr.fn.FreeVars {
			if fv == x {
				if i < len(fr.free) {
					return fr.free[i]
				}
			}
		}
		e.c.Unsupported("unbound free var %s in %s", x.Name(), fr.fn)
		return e.havocVal("fv", x.Type(), "true")
	case *ssa.Builtin:
		return Val{}
	}
	if r, ok := fr.vals[v]; ok {
		return r
	}
	e.c.Unsupported("use of undefined value %s (%T) in %s", v.Name(), v, fr.fn)
	r := e.havocVal("undef", v.Type(), "true")
	fr.vals[v] = r
	return r
}

// Outcome of evaluating a function body or a call.
type Outcome struct {
	NormalCond string
	St         *State
	Results    []Val
	PanicCond  string
	PanicSt    *State
}

type loopInfo struct {
	header *ssa.BasicBlock
	blocks map[*ssa.BasicBlock]bool
	ord    int
}

func findLoops(fn *ssa.Function) (map[*ssa.BasicBlock]*loopInfo, map[[2]int]bool) {
	loops := map[*ssa.BasicBlock]*loopInfo{}
	back := map[[2]int]bool{}
	for _, b := range fn.Blocks {
		for _, s := range b.Succs {
			if s.Dominates(b) {
				back[[2]int{b.Index, s.Index}] = true
				li := loops[s]
				if li == nil {
					li = &loopInfo{header: s, blocks: map[*ssa.BasicBlock]bool{s: true}}
					loops[s] = li
				}
				// natural loop: nodes that reach b without passing s
				stack := []*ssa.BasicBlock{b}
				for len(stack) > 0 {
					n := stack[len(stack)-1]
					stack = stack[:len(stack)-1]
					if li.blocks[n] {
						continue
					}
					li.blocks[n] = true
					stack = append(stack, n.Preds...)
				}
			}
		}
	}
	var hs []*ssa.BasicBlock
	for h := range loops {
		hs = append(hs, h)
	}
	sort.Slice(hs, func(i, j int) bool { return hs[i].Index < hs[j].Index })
	for i, h := range hs {
		loops[h].ord = i
	}
	return loops, back
}

func rpo(fn *ssa.Function, back map[[2]int]bool) []*ssa.BasicBlock {
	seen := map[*ssa.BasicBlock]bool{}
	var post []*ssa.BasicBlock
	var dfs func(b *ssa.BasicBlock)
	dfs = func(b *ssa.BasicBlock) {
		seen[b] = true
		for _, s := range b.Succs {
			if back[[2]int{b.Index, s.Index}] || seen[s] {
				continue
			}
			dfs(s)
		}
		post = append(post, b)
	}
	dfs(fn.Blocks[0])
	for i, j := 0, len(post)-1; i < j; i, j = i+1, j-1 {
		post[i], post[j] = post[j], post[i]
	}
	return post
}

const maxDepth = 12

type loopState struct {
	li      *loopInfo
	pre     *State // state at loop entry (before havoc)
	measure string
	spec    *LoopSpec
	phis    []*ssa.Phi
	framed  []string
}

// evalFunc symbolically executes fn from state st under reach.
func (e *Eval) evalFunc(fr *Frame, args []Val, st *State, reach string) Outcome {
	fn := fr.fn
	if fr.depth > maxDepth {
		e.c.Unsupported("inlining depth exceeded at %s", fn)
		return Outcome{NormalCond: "false", St: st, PanicCond: "false", PanicSt: st}
	}
	if len(fn.Blocks) == 0 {
		e.c.Unsupported("function without body %s", fn)
		return Outcome{NormalCond: "false", St: st, PanicCond: "false", PanicSt: st}
	}
	for i, p := range fn.Params {
		if i < len(args) {
			fr.vals[p] = args[i]
		}
	}
	fr.params = args
	fr.loopInfos, fr.back = findLoops(fn)
	fr.loopSt = map[*ssa.BasicBlock]*loopState{}
	order := rpo(fn, fr.back)
	e.evalBlocks(fr, order, fn.Blocks[0], st, reach, nil)
	return e.finish(fr, st)
}

// evalBlocks evaluates the blocks of order (reverse post-order, back edges
// removed) starting at entry. region, when non-nil, restricts evaluation to a
// loop body (dry run used to compute the loop's modified components) and
// collects the components written.
func (e *Eval) evalBlocks(fr *Frame, order []*ssa.BasicBlock, entry *ssa.BasicBlock, st *State, reach string, region *loopInfo) map[string]bool {
	fn := fr.fn
	back := fr.back
	loops := fr.loopInfos
	outReach := map[*ssa.BasicBlock]string{}
	outState := map[*ssa.BasicBlock]*State{}
	edgeCond := map[[2]int]string{}
	written := map[string]bool{}
	for _, b := range order {
		if region != nil && !region.blocks[b] {
			continue
		}
		var cur string
		var s *State
		var fconds []string
		var fpreds []*ssa.BasicBlock
		if b == entry {
			cur, s = reach, st.Clone()
		} else {
			var sts []*State
			for _, p := range b.Preds {
				if back[[2]int{p.Index, b.Index}] {
					continue
				}
				if _, ok := outReach[p]; !ok {
					continue // unreachable pred (e.g. recover block)
				}
				cnd := and(outReach[p], edgeCond[[2]int{p.Index, b.Index}])
				cnd = e.c.Define(fr.prefix+fmt.Sprintf("e%d_%d", p.Index, b.Index), "Bool", cnd)
				fconds = append(fconds, cnd)
				fpreds = append(fpreds, p)
				sts = append(sts, outState[p])
			}
			if len(sts) == 0 {
				continue
			}
			cur = e.c.Define(fr.prefix+fmt.Sprintf("r%d", b.Index), "Bool", or(fconds...))
			s = e.c.Merge(fconds, sts)
		}
		// a block entered from a loop header by the loop's exit edge sees the
		// header's values of the loop variables (phis carry no DebugRef, so
		// the source names would otherwise still denote the body's values)
		for _, p := range b.Preds {
			if ls, ok := fr.loopSt[p]; ok && ls.li != nil && !ls.li.blocks[b] {
				for _, phi := range ls.phis {
					if v, ok := fr.vals[phi]; ok && phi.Comment != "" && v.T != "" {
						if fr.names == nil {
							fr.names = map[string]namedVal{}
						}
						fr.names[phi.Comment] = namedVal{v, phi.Type()}
					}
				}
			}
		}
		li := loops[b]
		instrs := b.Instrs
		k := 0
		var phis []*ssa.Phi
		for ; k < len(instrs); k++ {
			phi, ok := instrs[k].(*ssa.Phi)
			if !ok {
				break
			}
			phis = append(phis, phi)
			if b == entry && region != nil {
				continue // dry run of a loop body: header phis keep their entry values
			}
			var t string
			srt := e.c.Sort(phi.Type())
			first := true
			for i := len(fpreds) - 1; i >= 0; i-- {
				idx := predIndex(b, fpreds[i])
				ev := e.val(fr, phi.Edges[idx])
				if ev.T == "" {
					e.c.Unsupported("phi of structured value in %s", fn)
					ev = e.havocVal("phi", phi.Type(), cur)
				}
				if first {
					t = ev.T
					first = false
				} else {
					t = ite(fconds[i], ev.T, t)
				}
			}
			fr.vals[phi] = Val{T: e.c.Define(fr.prefix+phi.Name(), srt, t)}
		}
		if li != nil && !(b == entry && region != nil) {
			e.loopHeader(fr, b, li, s, cur, phis, order)
		}
		for ; k < len(instrs); k++ {
			var done bool
			cur, s, done = e.instr(fr, instrs[k], s, cur)
			if done {
				break
			}
		}
		outReach[b] = cur
		outState[b] = s
		if region != nil {
			for comp, t := range s.m {
				if old, ok := st.m[comp]; !ok || old != t {
					written[comp] = true
				}
			}
			if s.epoch != st.epoch {
				written["*"] = true
			}
		}
		if len(instrs) > 0 {
			switch t := instrs[len(instrs)-1].(type) {
			case *ssa.If:
				cnd := e.val(fr, t.Cond).T
				edgeCond[[2]int{b.Index, b.Succs[0].Index}] = cnd
				edgeCond[[2]int{b.Index, b.Succs[1].Index}] = not(cnd)
			case *ssa.Jump:
				edgeCond[[2]int{b.Index, b.Succs[0].Index}] = "true"
			}
		}
		if region == nil || b != entry || true {
			for _, sblk := range b.Succs {
				if back[[2]int{b.Index, sblk.Index}] {
					if region != nil && sblk == region.header {
						continue
					}
					e.loopBackEdge(fr, b, sblk, outState[b], and(outReach[b], edgeCond[[2]int{b.Index, sblk.Index}]))
				}
			}
		}
	}
	return written
}

type snapshot struct {
	names map[string]namedVal
	body, obls, allocs, defers, normals, panics, unwound, unsup, calls int
	site                                                                           map[string]int
	vals                                                                           map[ssa.Value]Val
}

func (e *Eval) snap(fr *Frame) *snapshot {
	s := &snapshot{body: len(e.c.body), obls: len(e.obls), allocs: len(e.allocs),
		defers: len(fr.defers), normals: len(fr.normals), panics: len(fr.panics), unwound: len(fr.unwound), unsup: len(e.c.unsupported), calls: len(e.callLog),
		site: map[string]int{}, vals: map[ssa.Value]Val{}}
	for k, v := range e.siteCnt {
		s.site[k] = v
	}
	for k, v := range fr.vals {
		s.vals[k] = v
	}
	// source names of registers (DebugRef) seen so far: a dry run must not
	// leave names bound to values that exist only in the discarded run
	s.names = map[string]namedVal{}
	for k, v := range fr.names {
		s.names[k] = v
	}
	return s
}

func (e *Eval) restore(fr *Frame, s *snapshot) {
	e.c.body = e.c.body[:s.body]
	e.obls = e.obls[:s.obls]
	e.allocs = e.allocs[:s.allocs]
	fr.defers = fr.defers[:s.defers]
	fr.normals = fr.normals[:s.normals]
	fr.panics = fr.panics[:s.panics]
	fr.unwound = fr.unwound[:s.unwound]
	e.c.unsupported = e.c.unsupported[:s.unsup]
	e.callLog = e.callLog[:s.calls]
	e.siteCnt = s.site
	fr.vals = s.vals
	fr.names = s.names
}

// loopHeader cuts the loop at its header: invariants are checked on entry,
// everything the body may modify is havoc'd, invariants are assumed.
func (e *Eval) loopHeader(fr *Frame, b *ssa.BasicBlock, li *loopInfo, s *State, cur string, phis []*ssa.Phi, order []*ssa.BasicBlock) {
	c := e.c
	var spec *LoopSpec
	if fr == e.root && e.rootC != nil {
		spec = e.rootC.Loops[li.ord]
	}
	if spec == nil {
		if fr != e.root {
			c.Unsupported("loop in inlined function %s", fr.fn)
		}
		spec = &LoopSpec{}
	}
	ls := &loopState{li: li, pre: s.Clone(), spec: spec, phis: phis}
	fr.loopSt[b] = ls
	// invariants hold on entry
	env := e.loopEnv(fr, ls, s, nil, nil)
	for _, cl := range spec.Invariants {
		ex, err := cl.Parse()
		if err != nil {
			c.Unsupported("%v", err)
			continue
		}
		e.oblige(fmt.Sprintf("loop#%d/init/%s", li.ord, clauseLabel(cl, spec.Invariants)), "loop-init", cl.Props, cur, env.evalGoal(ex), cl.Text, cl.Where)
	}
	// dry run to find what the body writes
	sn := e.snap(fr)
	written := e.evalBlocks(fr, order, b, s, cur, li)
	e.restore(fr, sn)
	var comps []string
	for comp := range written {
		comps = append(comps, comp)
	}
	sort.Strings(comps)
	e.curSt = s
	preTop := e.top(s)
	// the loop may allocate
	if written["$top"] || written["*"] {
		nt := c.Fresh("$top@loop", "Int")
		c.Assert("(>= " + nt + " " + preTop + ")")
		s.m["$top"] = nt
	}
	var framed []string
	for _, comp := range comps {
		if comp == "*" {
			e.havocAll(s)
			continue
		}
		if comp == "$top" {
			continue
		}
		if strings.HasPrefix(comp, "L.") && !cellLive(comp, s) {
			continue
		}
		// loop frame: objects that existed at function entry and are not named
		// by the modifies clause keep their entry value
		if fr == e.root && e.frameable(comp) {
			g := e.frameFormula(comp, c.Get(ls.pre, comp), true)
			e.oblige(fmt.Sprintf("loop#%d/frame-init/%s", li.ord, comp), "loop-frame", allProps(e.rootC), cur, g, "loop frame holds on entry: "+comp, e.rootC.Where)
			framed = append(framed, comp)
		}
		e.havocComp(s, comp)
	}
	for _, comp := range framed {
		c.Assert(implies(cur, e.frameFormula(comp, c.Get(s, comp), false)))
	}
	ls.framed = framed
	for _, phi := range phis {
		fr.vals[phi] = e.havocVal(fr.prefix+phi.Name()+":"+phi.Comment, phi.Type(), cur)
	}
	env = e.loopEnv(fr, ls, s, nil, nil)
	for _, cl := range spec.Invariants {
		if ex, err := cl.Parse(); err == nil {
			c.Assert(implies(cur, env.evalBool(ex)))
		}
	}
	if spec.Decreases != nil {
		if ex, err := spec.Decreases.Parse(); err == nil {
			tv := env.defaultType(env.eval(ex))
			ls.measure = c.Define(fr.prefix+fmt.Sprintf("measure%d", li.ord), env.sortOf(tv.Ty), tv.T)
		}
	}
}

// cellLive: a local cell declared before the loop (present in the state).
func cellLive(comp string, s *State) bool {
	_, ok := s.m[comp]
	return ok
}

func (e *Eval) loopEnv(fr *Frame, ls *loopState, s *State, from *ssa.BasicBlock, header *ssa.BasicBlock) *Env {
	env := e.newEnv(e.pkgOf(fr), s, e.entry)
	env.loopPre = ls.pre
	e.bindParams(env, fr)
	e.bindCells(env, fr)
	for _, phi := range ls.phis {
		v := fr.vals[phi]
		if from != nil {
			v = e.val(fr, phi.Edges[predIndex(header, from)])
		}
		if phi.Comment != "" {
			env.bind(phi.Comment, v, phi.Type())
		}
		env.bind(phi.Name(), v, phi.Type())
	}
	// loop variables of the enclosing loops, at their current values
	for _, other := range fr.loopSt {
		// enclosing loops only: their body contains this loop's header
		if other == ls || other.li == nil || ls.li == nil || !other.li.blocks[ls.li.header] {
			continue
		}
		for _, phi := range other.phis {
			if v, ok := fr.vals[phi]; ok && phi.Comment != "" {
				env.bindIfAbsent(phi.Comment, v, phi.Type())
			}
		}
	}
	return env
}

// bindCells exposes un-lifted local variables (Alloc cells) by source name.
func (e *Eval) bindCells(env *Env, fr *Frame) {
	defer func() {
		for n, nv := range fr.names {
			if _, dup := env.vars[n]; !dup {
				env.vars[n] = TV{T: nv.v.T, Ty: nv.t}
			}
		}
	}()
	for v, val := range fr.vals {
		// local arrays: the name denotes the whole array as a slice
		if a, ok := v.(*ssa.Alloc); ok && a.Comment != "" && val.A != nil && val.A.Kind == "array" {
			if at, ok := val.A.Typ.Underlying().(*types.Array); ok {
				if _, dup := env.vars[a.Comment]; !dup {
					n := bvLit(64, uint64(at.Len()))
					env.vars[a.Comment] = TV{T: fmt.Sprintf("(mk-slice %s #x0000000000000000 %s %s)", val.A.Base, n, n), Ty: types.NewSlice(at.Elem())}
				}
			}
		}
		// local struct variables: the name denotes the object (auto-dereferenced)
		if a, ok := v.(*ssa.Alloc); ok && a.Comment != "" && val.A == nil && val.T != "" {
			if pt, ok := a.Type().(*types.Pointer); ok && isStruct(pt.Elem()) {
				if _, dup := env.vars[a.Comment]; !dup {
					env.vars[a.Comment] = TV{T: val.T, Ty: a.Type()}
				}
			}
		}
		if a, ok := v.(*ssa.Alloc); ok && a.Comment != "" && val.A != nil && val.A.Kind == "cell" {
			if _, dup := env.vars[a.Comment]; dup {
				continue
			}
			if _, ok := env.st.m[val.A.Comp]; !ok {
				continue
			}
			env.vars[a.Comment] = TV{T: e.loadAddr(env.st, val.A), Ty: val.A.Typ}
		}
	}
}

func (e *Eval) loopBackEdge(fr *Frame, from, header *ssa.BasicBlock, st *State, cond string) {
	ls := fr.loopSt[header]
	if ls == nil {
		return
	}
	c := e.c
	env := e.loopEnv(fr, ls, st, from, header)
	for _, cl := range ls.spec.Invariants {
		ex, err := cl.Parse()
		if err != nil {
			continue
		}
		e.oblige(fmt.Sprintf("loop#%d/preserved/%s", ls.li.ord, clauseLabel(cl, ls.spec.Invariants)), "loop-preserved", cl.Props, cond, env.evalGoal(ex), cl.Text, cl.Where)
	}
	for _, comp := range ls.framed {
		e.oblige(fmt.Sprintf("loop#%d/frame-preserved/%s", ls.li.ord, comp), "loop-frame", allProps(e.rootC), cond, e.frameFormula(comp, c.Get(st, comp), true), "loop body changes only what modifies names (or objects allocated by the call): "+comp, e.rootC.Where)
	}
	if ls.spec.Decreases != nil && ls.measure != "" {
		if ex, err := ls.spec.Decreases.Parse(); err == nil {
			tv := env.defaultType(env.eval(ex))
			var g string
			if isMathInt(tv.Ty) {
				g = and("(< "+tv.T+" "+ls.measure+")", "(>= "+ls.measure+" 0)")
			} else {
				w, _, _ := isInt(tv.Ty)
				g = and("(bvslt "+tv.T+" "+ls.measure+")", "(bvsge "+ls.measure+" "+bvLit(w, 0)+")")
			}
			e.oblige(fmt.Sprintf("loop#%d/decreases", ls.li.ord), "loop-decreases", ls.spec.Decreases.Props, cond, g, ls.spec.Decreases.Text, ls.spec.Decreases.Where)
		}
	}
	_ = c
}

func predIndex(b, p *ssa.BasicBlock) int {
	for i, x := range b.Preds {
		if x == p {
			return i
		}
	}
	return -1
}

// finish merges exits; raw panic exits first run the deferred calls.
func (e *Eval) finish(fr *Frame, st0 *State) Outcome {
	for i := 0; i < len(fr.panics); i++ { // may grow while unwinding
		px := fr.panics[i]
		e.unwind(fr, px.st.Clone(), px.cond, px.ndefers-1)
	}
	out := Outcome{NormalCond: "false", PanicCond: "false", St: st0, PanicSt: st0}
	if len(fr.normals) > 0 {
		var conds []string
		var sts []*State
		for _, x := range fr.normals {
			conds = append(conds, x.cond)
			sts = append(sts, x.st)
		}
		out.NormalCond = e.c.Define(fr.prefix+"ret", "Bool", or(conds...))
		out.St = e.c.Merge(conds, sts)
		nres := len(fr.normals[0].results)
		for i := 0; i < nres; i++ {
			rt := fr.fn.Signature.Results().At(i).Type()
			t := fr.normals[len(fr.normals)-1].results[i]
			same := true
			for _, x := range fr.normals {
				if x.results[i].T != t.T || x.results[i].A != nil || x.results[i].Clo != nil {
					same = false
				}
			}
			if same {
				out.Results = append(out.Results, t)
				continue
			}
			term := t.T
			for j := len(fr.normals) - 2; j >= 0; j-- {
				term = ite(conds[j], fr.normals[j].results[i].T, term)
			}
			out.Results = append(out.Results, Val{T: e.c.Define(fr.prefix+fmt.Sprintf("res%d", i), e.c.Sort(rt), term)})
		}
	}
	if len(fr.unwound) > 0 {
		var conds []string
		var sts []*State
		for _, x := range fr.unwound {
			conds = append(conds, x.cond)
			sts = append(sts, x.st)
		}
		out.PanicCond = e.c.Define(fr.prefix+"panic", "Bool", or(conds...))
		out.PanicSt = e.c.Merge(conds, sts)
	}
	return out
}

// unwind runs the deferred calls idx..0 while panicking; afterwards the panic
// either was recovered (control continues in the Recover block, which
// returns the named results) or leaves the frame.
func (e *Eval) unwind(fr *Frame, st *State, cond string, idx int) {
	if cond == "false" {
		return
	}
	e.c.DeclComp("$recovered", "Bool")
	if _, ok := st.m["$recovered"]; !ok {
		st.m["$recovered"] = "false"
	}
	e.c.DeclComp("$didpanic", "Bool")
	st.m["$didpanic"] = "true"
	cond, st = e.runDefers(fr, st, cond, idx, true)
	rec := e.c.Get(st, "$recovered")
	delete(st.m, "$recovered")
	if rec != "false" && fr.fn.Recover != nil {
		rc := e.c.Define(fr.prefix+"recovered", "Bool", and(cond, rec))
		cur, s := rc, st.Clone()
		for _, in := range fr.fn.Recover.Instrs {
			var done bool
			cur, s, done = e.instr(fr, in, s, cur)
			if done {
				break
			}
		}
		cond = and(cond, not(rec))
	}
	if cond != "false" {
		fr.unwound = append(fr.unwound, exitRec{cond: cond, st: st})
	}
}

// runDefers executes the deferred calls idx..0 (those registered on the
// executed path, selected by their guards) and returns the condition and
// state with which execution continues after them. A panic inside a
// deferred call unwinds through the remaining ones.
func (e *Eval) runDefers(fr *Frame, st *State, cond string, idx int, panicking bool) (string, *State) {
	for i := idx; i >= 0; i-- {
		d := fr.defers[i]
		g := and(cond, d.guard)
		if g == "false" {
			continue
		}
		oc := e.doCall(fr, d.call, d.args, d.fnval, st.Clone(), g, d.site, panicking)
		if oc.PanicCond != "false" {
			pst := oc.PanicSt.Clone()
			if v, ok := st.m["$recovered"]; ok {
				if _, ok2 := pst.m["$recovered"]; !ok2 {
					pst.m["$recovered"] = v
				}
			}
			e.unwind(fr, pst, oc.PanicCond, i-1)
		}
		ncond := and(g, oc.NormalCond)
		skip := and(cond, not(d.guard))
		if skip == "false" {
			st = oc.St
			cond = ncond
		} else {
			st = e.c.Merge([]string{ncond, skip}, []*State{oc.St, st})
			cond = e.c.Define(fr.prefix+"dcond", "Bool", or(ncond, skip))
		}
	}
	return cond, st
}

// frameable: heap components indexed by object identity for which the root
// contract does not allow arbitrary change.
func (e *Eval) frameable(comp string) bool {
	if e.rootC == nil || e.allowedAll == nil || e.allowedAll[comp] || e.allowedAll["*"] {
		return false
	}
	if strings.HasPrefix(comp, "L.") || strings.HasPrefix(comp, "$") || strings.HasPrefix(comp, "G.") {
		return false
	}
	return strings.HasPrefix(e.c.compSort[comp], "(Array Int ")
}

// frameFormula: forall x. x existed at entry and is not an allowed location
// ==> term[x] == entry[x]. As a goal the quantifier is a fresh constant.
func (e *Eval) frameFormula(comp, term string, goal bool) string {
	c := e.c
	x := "x"
	if goal {
		x = c.Fresh("sk.frame", "Int")
	}
	conds := []string{"(<= " + x + " " + c.entryName("$top") + ")"}
	for _, idx := range e.allowedIdx[comp] {
		conds = append(conds, "(not (= "+x+" "+idx+"))")
	}
	body := implies(and(conds...), eq(sel(term, x), sel(c.entryName(comp), x)))
	if goal {
		return body
	}
	return fmt.Sprintf("(forall ((x Int)) (! %s :pattern ((select %s x))))", body, term)
}

func (e *Eval) pkgOf(fr *Frame) *ssa.Package {
	if fr.fn != nil && fr.fn.Pkg != nil {
		return fr.fn.Pkg
	}
	return e.rootPkg
}
