package main

import (
	"encoding/json"
	"flag"
	"fmt"
	"os"
	"os/exec"
	"path/filepath"
	"strings"
)

// replayModel turns a solver model into a concrete run of the real code.
// No generic driver exists (DESIGN.md 0a): engine-reported violations carry
// "no-failing-input-found" and the replay file names the failed obligation.
func replayModel(prop string, w *oblResult, model string, rep map[string]interface{}) bool {
	return false
}

// registeredReplay: /verif/replay/registry.json maps obligation names to
// committed replay files with a test of the real code (written when the
// defect behind that obligation was first found). When such an obligation
// fails, the test is run against the tree under check; if it fails there, the
// violation is confirmed on the real code.
func registeredReplay(repo, obligation string) (file string, confirmed bool, output string) {
	b, err := os.ReadFile(filepath.Join(verifDir, "replay", "registry.json"))
	if err != nil {
		return "", false, ""
	}
	reg := map[string]string{}
	if json.Unmarshal(b, &reg) != nil {
		return "", false, ""
	}
	f, ok := reg[obligation]
	if !ok {
		// conjunct suffixes (.1, .2) share the entry of the clause
		if i := strings.LastIndex(obligation, "."); i > 0 {
			f, ok = reg[obligation[:i]]
		}
		if !ok {
			return "", false, ""
		}
	}
	passed, out := runGoTestReplay(repo, f)
	return f, !passed, out
}

func runGoTestReplay(repo, file string) (passed bool, output string) {
	b, err := os.ReadFile(file)
	if err != nil {
		return true, err.Error()
	}
	var rep struct {
		GoTest *struct {
			File   string `json:"file"`
			Target string `json:"target"`
			Pkg    string `json:"pkg"`
			Run    string `json:"run"`
			Race   bool   `json:"race"`
		} `json:"go_test"`
	}
	if json.Unmarshal(b, &rep) != nil || rep.GoTest == nil {
		return true, "no go_test in " + file
	}
	scratch := filepath.Join(verifDir, ".cache", "scratch")
	os.MkdirAll(scratch, 0o755)
	ov := filepath.Join(scratch, fmt.Sprintf("overlay-%d-%d.json", os.Getpid(), len(file)))
	target := strings.Replace(rep.GoTest.Target, "/repo/", strings.TrimSuffix(repo, "/")+"/", 1)
	ob, _ := json.Marshal(map[string]interface{}{"Replace": map[string]string{target: rep.GoTest.File}})
	os.WriteFile(ov, ob, 0o644)
	defer os.Remove(ov)
	a := []string{"test", "-overlay", ov, "-vet=off", "-count=1", "-timeout", "120s", "-run", rep.GoTest.Run}
	if rep.GoTest.Race {
		a = append(a, "-race")
	}
	a = append(a, rep.GoTest.Pkg)
	cmd := exec.Command("go", a...)
	cmd.Dir = repo
	cmd.Env = append(os.Environ(), "GOFLAGS=-mod=mod", "GOPROXY=off", "GOSUMDB=off", "GOTOOLCHAIN=local")
	out, err := cmd.CombinedOutput()
	return err == nil, string(out)
}

// cmdReplay: `vcgen replay -prop P -file F`.
// F is a replay file written by a check (or one of the committed files under
// /verif/replay). Two things can be replayed:
//   - "go_test": a test of the real code (injected with go test -overlay, /repo
//     is not written to); a failing test is the violation;
//   - otherwise the named obligation is regenerated from /repo's current tree
//     and decided again.
func cmdReplay(args []string) int {
	fs := flag.NewFlagSet("replay", flag.ExitOnError)
	prop := fs.String("prop", "", "property id")
	file := fs.String("file", "", "replay file")
	repo := fs.String("repo", "/repo", "")
	fs.Parse(args)
	b, err := os.ReadFile(*file)
	if err != nil {
		fmt.Fprintln(os.Stderr, "BROKEN: replay file:", err)
		return 2
	}
	var rep struct {
		Property   string `json:"property"`
		Obligation string `json:"obligation"`
		GoTest     *struct {
			File   string `json:"file"`
			Target string `json:"target"`
			Pkg    string `json:"pkg"`
			Run    string `json:"run"`
			Race   bool   `json:"race"`
		} `json:"go_test"`
	}
	if err := json.Unmarshal(b, &rep); err != nil {
		fmt.Fprintln(os.Stderr, "BROKEN: replay file:", err)
		return 2
	}
	if *prop == "" {
		*prop = rep.Property
	}
	if rep.GoTest != nil {
		passed, out := runGoTestReplay(*repo, *file)
		fmt.Print(truncate(out, 6000))
		if !passed {
			fmt.Printf("VIOLATION property=%s replay=%s\n", *prop, *file)
			return 1
		}
		fmt.Printf("replay passes on the current tree: %s\n", rep.Obligation)
		return 0
	}
	if rep.Obligation == "" {
		fmt.Fprintln(os.Stderr, "BROKEN: replay file names no obligation")
		return 2
	}
	fn := rep.Obligation
	if i := strings.Index(fn, "/"); i >= 0 {
		fn = fn[:i]
	}
	return cmdCheck([]string{"-prop", *prop, "-repo", *repo, "-only", fn, "-exact", rep.Obligation, "-nocache"})
}
