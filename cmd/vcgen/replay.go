package main

// replayModel turns a solver model into a concrete run of the real code.
// Drivers are registered per contract shape; without a driver the violation
// is reported with "no-failing-input-found".
func replayModel(prop string, w *oblResult, model string, rep map[string]interface{}) bool {
	return false
}
